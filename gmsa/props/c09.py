"""C09 - Monte-Carlo search: consistent energies, Metropolis rule, exact stop.

Exhaustive over the structural paths of the search loop's body:
R9.1 the proposal is judged against the energy of the configuration currently held
R9.2 held configuration and held energy are rebound only together, only on acceptance, to the proposal and its energy
R9.3 every proposal derives from the held configuration (translation / rotation about its centroid /
     bond-preserving single-atom move), selected by the drawn deformation type
R9.4 the search returns the held configuration
R9.5 counter discipline: one of {reset, +1} per iteration; reset exactly on a strictly lower minimum
R9.6 Metropolis rule with acceptance constant 0.01, one uniform draw, (held, new) argument order
"""
from __future__ import annotations

import ast
from typing import Dict, List, Optional, Set, Tuple

from ..cfg import (CFG, call_name, calls_in, walk_no_nested, parents_map, guards_of, attr_chain, enum_paths,
                   flip_compare, const_int, ancestors)
from ..core import AnalysisError, Ctx, Func, norm
from ..util import stmts_sorted

SPEC = {
    "explanation": (
        "The body of the search loop in _backend._minimize_molecules is acyclic; all its structural paths are "
        "enumerated (12 on the pinned tree) and the bookkeeping discipline is checked on each, together with "
        "reaching definitions at the acceptance call computed on the function's CFG (so definitions carried "
        "around the loop are included).  Because a random stream can only select among these paths, a fact "
        "shown on every path holds for every stream, seed and step budget.  Local aliases (`_x = x`) are "
        "resolved before matching.  The acceptance function is checked path by path: no draw when the new "
        "energy is not higher, otherwise exactly one uniform draw compared with acceptance*E_held/E_new, with "
        "the default acceptance folded to 0.01 and not overridden at the call site.  Considered and not "
        "armed: 'proposal undefined when the drawn type matches no branch' (unreachable for deformation types "
        "within {0,1,2}, which is the property's quantifier)."),
    "exhaustive": True,
    "trusted_base": ["np.random.choice draws an element of its argument; np.random.rand() is uniform on [0,1)",
                     "array + vector, np.dot, np.mean allocate new arrays"],
    "assumptions": ["deformation types are a non-empty subset of {0, 1, 2}"],
}


class Loop:
    def __init__(self, ctx: Ctx):
        self.ctx = ctx
        f = ctx.repo.func("_backend._minimize_molecules", required=False)
        acc = ctx.func("accept_metropolis")
        if f is None:
            for g in ctx.repo.funcs_in_module("gaddlemaps._backend"):
                for n in walk_no_nested(g.node):
                    if isinstance(n, ast.While) and any(self._alias_target(g, c) == acc.name for c in calls_in(n)):
                        f = g
        if f is None:
            raise AnalysisError("search loop (while body calling %s) not found in gaddlemaps._backend" % acc.name)
        ctx.seen(f, acc)
        self.f, self.acc = f, acc
        self.alias = self._aliases(f)
        loops = [n for n in walk_no_nested(f.node) if isinstance(n, ast.While)]
        self.loop = None
        for l in loops:
            if any(self.target(c) == acc.name for c in calls_in(l)):
                self.loop = l
        if self.loop is None:
            raise AnalysisError("while loop calling the acceptance function not found in %s" % f.qual)
        self.cfg = CFG(f.node)
        self.rd = self.cfg.reaching_defs(f.params)
        self.dom = self.cfg.dominators()
        self.pm = parents_map(f.node)
        acc_calls = [c for c in calls_in(self.loop) if self.target(c) == acc.name]
        if len(acc_calls) != 1 or len(acc_calls[0].args) < 2:
            raise AnalysisError("expected exactly one acceptance call with two energies in the loop")
        self.acc_call = acc_calls[0]
        # energy callable: the local bound to a Chi2Calculator instance; proposal energy: what the loop
        # assigns from calls of it; the held energy is the other argument of the acceptance call
        ecalls = [(norm(st.targets[0]), st.value) for st in walk_no_nested(self.loop)
                  if isinstance(st, ast.Assign) and isinstance(st.value, ast.Call)
                  and self.full_target(st.value).startswith("instance:") and isinstance(st.targets[0], ast.Name)]
        args = [norm(a) for a in self.acc_call.args[:2]]
        evars = {v for v, _ in ecalls}
        self.order_ok = True
        if len(evars) == 1 and list(evars)[0] in args:
            self.e1 = list(evars)[0]
            self.e0 = args[0] if args[1] == self.e1 else args[1]
            self.order_ok = args[1] == self.e1
        else:
            self.e0, self.e1 = args
        # accept branch: the If whose test contains the acceptance call
        self.acc_if = None
        for n in walk_no_nested(self.loop):
            if isinstance(n, ast.If) and any(x is self.acc_call for x in ast.walk(n.test)):
                self.acc_if = n
        if self.acc_if is None:
            raise AnalysisError("the acceptance call is not the test of an if statement")
        # the body of that `if` is the accept branch only when the test is the call itself
        t = self.acc_if.test
        self.acc_polarity_ok = t is self.acc_call or (isinstance(t, ast.Compare) and t.left is self.acc_call
                                                      and isinstance(t.ops[0], (ast.Is, ast.Eq))
                                                      and isinstance(t.comparators[0], ast.Constant)
                                                      and t.comparators[0].value is True)
        # energy function: callee of the definition of e1
        self.energy = None
        self.proposal = None
        for st in walk_no_nested(self.loop):
            if isinstance(st, ast.Assign) and norm(st.targets[0]) == self.e1 and isinstance(st.value, ast.Call) and st.value.args:
                self.energy = norm(st.value.func)
                self.proposal = norm(st.value.args[0])
        rets = [n for n in walk_no_nested(f.node) if isinstance(n, ast.Return) and n.value is not None]
        self.rets = rets
        # held configuration: the variable rebound to the proposal in the accept branch
        self.held = None
        for st in self.acc_if.body:
            if isinstance(st, ast.Assign) and self.proposal and norm(st.value) == self.proposal and isinstance(st.targets[0], ast.Name):
                self.held = st.targets[0].id
        t = self.loop.test
        self.counter = None
        self.budget = None
        if isinstance(t, ast.Compare) and len(t.ops) == 1:
            c = flip_compare(t)          # "a < b"
            if " < " in c:
                self.counter, self.budget = c.split(" < ")

    def _aliases(self, f: Func) -> Dict[str, str]:
        out = {}
        for st in walk_no_nested(f.node):
            if isinstance(st, ast.Assign) and len(st.targets) == 1 and isinstance(st.targets[0], ast.Name):
                v = st.value
                if isinstance(v, (ast.Name, ast.Attribute)):
                    out[st.targets[0].id] = norm(v)
                elif isinstance(v, ast.Call) and isinstance(v.func, ast.Name) and v.func.id in self.ctx.repo.modules[f.module.name].imports \
                        or isinstance(v, ast.Call) and isinstance(v.func, ast.Name) and any(c.name == v.func.id for c in self.ctx.repo.classes.values()):
                    out[st.targets[0].id] = "instance:" + v.func.id
        return out

    def _alias_target(self, f, call) -> str:
        return call_name(call)

    def target(self, call: ast.Call) -> str:
        """Last component of the callee after resolving local aliases."""
        n = norm(call.func)
        seen = set()
        while n in self.alias and n not in seen:
            seen.add(n)
            n = self.alias[n]
        return n.split(".")[-1] if not n.startswith("instance:") else n

    def full_target(self, call: ast.Call) -> str:
        n = norm(call.func)
        seen = set()
        while n in self.alias and n not in seen:
            seen.add(n)
            n = self.alias[n]
        return n


def run(ctx: Ctx):
    L = Loop(ctx)
    ctx.attempt("R9.1", lambda: r9_1(ctx, L))
    ctx.attempt("R9.2", lambda: r9_2(ctx, L))
    ctx.attempt("R9.3", lambda: r9_3(ctx, L))
    ctx.attempt("R9.4", lambda: r9_4(ctx, L))
    ctx.attempt("R9.5", lambda: r9_5(ctx, L))
    ctx.attempt("R9.6", lambda: r9_6(ctx, L))
    # "a bond-preserving single-atom move": the traversal discipline and the pull length of move_mol_atom (C07)
    from . import c07
    ctx.attempt("R7.2", lambda: c07.r7_2_3(ctx, ctx.func("move_mol_atom")))
    ctx.attempt("R7.5", lambda: c07.r7_5(ctx, ctx.func("move_mol_atom")))
    ctx.attempt("R7.6", lambda: c07.r7_6(ctx, ctx.func("move_mol_atom"), ctx.func("find_atom_random_displ")))


def _in_accept_branch_toplevel(L: Loop, st) -> bool:
    return any(s is st for s in L.acc_if.body)


def r9_1(ctx: Ctx, L: Loop, rule="R9.1"):
    f = L.f
    node = L.cfg.node_containing(L.acc_call)
    # E0: the held energy
    ok_e0 = L.e0.isidentifier()
    defs0 = L.rd.at(node, L.e0) if ok_e0 else []
    facts = []
    paired = False
    for d in defs0:
        a = d.ast
        if not isinstance(a, ast.Assign):
            ok_e0 = False
            facts.append("non-assignment definition %s" % norm(a))
            continue
        v = a.value
        inside = any(a is x for x in ast.walk(L.loop))
        if not inside:
            # initial: energy(<held>) evaluated on the initial configuration
            # ... the held configuration itself, or what it was initialised from (`held = start; e = energy(start)`)
            inits_ = [s_ for s_ in stmts_sorted(f.node) if isinstance(s_, ast.Assign) and norm(s_.targets[0]) == L.held
                      and s_.lineno < L.loop.lineno and isinstance(s_.value, ast.Name)]
            held_names = {L.held} | ({inits_[-1].value.id} if inits_ else set())
            good = isinstance(v, ast.Call) and norm(v.func) == L.energy and v.args and norm(v.args[0]) in held_names
            facts.append("initial %s" % norm(a))
            ok_e0 &= bool(good)
        else:
            good = norm(v) == L.e1 and _in_accept_branch_toplevel(L, a)
            paired |= bool(good)
            facts.append("in loop %s%s" % (norm(a), "" if good else " (not the accepted proposal's energy in the accept branch)"))
            ok_e0 &= bool(good)
    ok_e0 = ok_e0 and paired and len(defs0) >= 2
    ctx.ob(rule, f, L.acc_call, ok_e0,
           "the first argument of the acceptance call is the energy of the held configuration: its reaching "
           "definitions are the initial evaluation and the unconditional copy of the accepted proposal's energy"
           + ("" if ok_e0 else " -- definitions reaching `%s`: %s" % (L.e0, facts)), node=L.acc_call, definitions=facts)
    # E1: energy of this iteration's proposal.  Path statement: on every path through the loop body that builds a
    # proposal and reaches the acceptance test, an evaluation `e1 = energy(proposal)` lies between the last
    # definition of the proposal and the test (whether each branch evaluates its own proposal or one evaluation
    # follows the branches) - otherwise the test would use an energy left over from an earlier iteration, or the
    # energy of another configuration.
    defs1 = L.rd.at(node, L.e1) if L.e1.isidentifier() else []

    def is_eval(x):
        return isinstance(x, ast.Assign) and norm(x.targets[0]) == L.e1 and isinstance(x.value, ast.Call) \
            and norm(x.value.func) == L.energy and x.value.args and norm(x.value.args[0]) == L.proposal

    def is_prop(x):
        return isinstance(x, ast.Assign) and norm(x.targets[0]) == L.proposal
    prop_ok: Dict[int, bool] = {}
    prop_node: Dict[int, ast.AST] = {}
    eval_bad: Dict[int, str] = {}
    for p_ in enum_paths(L.loop.body):
        seq = []
        reached = False
        for ev in p_.events:
            if ev[0] == "s":
                seq.append(ev[1])
            elif ev[0] == "c" and any(x is L.acc_call for x in ast.walk(ev[1])):
                reached = True
                break
        if not reached:
            continue
        props = [i for i, x in enumerate(seq) if is_prop(x)]
        if not props:
            continue
        lastp = props[-1]
        evals = [i for i, x in enumerate(seq) if is_eval(x) and i > lastp]
        other_e1 = [i for i, x in enumerate(seq) if isinstance(x, ast.Assign) and norm(x.targets[0]) == L.e1 and not is_eval(x) and i > lastp]
        good = bool(evals) and not [i for i in other_e1 if i > evals[-1]]
        for i in props:
            prop_node[id(seq[i])] = seq[i]
            prop_ok[id(seq[i])] = prop_ok.get(id(seq[i]), True) and good
        for i in other_e1:
            eval_bad[id(seq[i])] = norm(seq[i])
    for k_, s in prop_node.items():
        ctx.ob(rule, f, s, prop_ok[k_],
               "the proposal built here is evaluated (`%s = %s(%s)`) before the acceptance test" % (L.e1, L.energy, L.proposal)
               + ("" if prop_ok[k_] else " -- no evaluation follows: the acceptance test would use an energy left over "
                  "from an earlier iteration"), node=s)
    facts1 = []
    ok_e1 = bool(defs1)
    for d in defs1:
        a = d.ast
        good = a is not None and is_eval(a) and any(a is x for x in ast.walk(L.loop))
        facts1.append("%s%s" % (norm(a), "" if good else " (not %s(%s) of this iteration's proposal)" % (L.energy, L.proposal)))
        ok_e1 &= bool(good)
    ok_e1 = ok_e1 and all(prop_ok.values()) and bool(prop_ok)
    ctx.ob(rule, f, "definitions of `%s` reaching the acceptance call" % L.e1, ok_e1 and len(defs1) >= 1,
           "the second argument is the energy of the proposal built in the same iteration, evaluated after the last "
           "definition of that proposal" + ("" if ok_e1 else " -- %s" % facts1), node=L.acc_call, definitions=facts1)
    ctx.extra["roles"] = {"held": L.held, "held_energy": L.e0, "proposal": L.proposal, "proposal_energy": L.e1,
                          "energy_function": L.energy, "counter": L.counter, "budget": L.budget}


def _block_of(st, pm):
    par = pm.get(id(st))
    for fld in ("body", "orelse", "finalbody"):
        blk = getattr(par, fld, None)
        if isinstance(blk, list) and any(s is st for s in blk):
            return blk
    return None


def r9_2(ctx: Ctx, L: Loop, rule="R9.2"):
    f = L.f
    if L.held is None:
        ctx.ob(rule, f, L.acc_if, False, "on acceptance the held configuration is rebound to the proposal "
               "-- no such assignment in the accept branch", node=L.acc_if)
        return
    body = L.acc_if.body
    st_h = [s for s in body if isinstance(s, ast.Assign) and norm(s.targets[0]) == L.held and norm(s.value) == L.proposal]
    st_e = [s for s in body if isinstance(s, ast.Assign) and norm(s.targets[0]) == L.e0 and norm(s.value) == L.e1]
    ctx.ob(rule, f, L.acc_if, len(st_h) == 1 and len(st_e) == 1 and L.acc_polarity_ok,
           "the branch taken when the acceptance rule answers True rebinds, unconditionally and together, "
           "held := proposal and held energy := proposal energy"
           + ("" if st_e else " -- the held energy is not updated on acceptance")
           + ("" if L.acc_polarity_ok else " -- the update sits in the branch taken when the proposal is REJECTED "
              "(test is `%s`)" % norm(L.acc_if.test)), node=L.acc_if)
    # no other rebinding of held / held energy inside the loop
    other = []
    for s in walk_no_nested(L.loop):
        tg = None
        if isinstance(s, ast.Assign):
            for t in s.targets:
                for x in ([t] if not isinstance(t, (ast.Tuple, ast.List)) else t.elts):
                    if norm(x) in (L.held, L.e0) and s not in st_h and s not in st_e:
                        other.append(s)
        elif isinstance(s, ast.AugAssign) and norm(s.target) in (L.held, L.e0):
            other.append(s)
        elif isinstance(s, (ast.Assign, ast.AugAssign)):
            pass
        if isinstance(s, ast.Assign) and any(isinstance(t, ast.Subscript) and norm(t.value) == L.held for t in s.targets):
            other.append(s)
    ctx.ob(rule, f, "other writes to `%s`/`%s` in the loop: %s" % (L.held, L.e0, [norm(s) for s in other]), not other,
           "a rejected proposal leaves the held configuration and its energy unchanged (no other assignment, no "
           "in-place update of the held array in the loop)", node=other[0] if other else L.loop)
    # callees given the held array do not modify it
    for c in calls_in(L.loop):
        if any(norm(a) == L.held for a in c.args):
            tgt = L.full_target(c)
            safe = tgt.startswith(("np.", "numpy.")) or tgt.startswith("instance:") or L.target(c) in ("move_mol_atom",)
            why = "numpy reduction/allocation" if tgt.startswith(("np.", "numpy.")) else (
                "energy evaluation (reads only)" if tgt.startswith("instance:") else "copies its input first (C07/R7.1)")
            ctx.ob(rule, f, c, safe, "callee receiving the held array does not modify it (%s)" % why if safe else
                   "callee `%s` receives the held array: not known to leave it unmodified" % tgt, node=c)


def r9_3(ctx: Ctx, L: Loop, rule="R9.3"):
    f = L.f
    defs = [s for s in walk_no_nested(L.loop) if isinstance(s, ast.Assign) and norm(s.targets[0]) == L.proposal]
    ctx.floor(rule, len(defs), 3, "proposal constructors in the loop")
    # the drawn type
    change = None
    for s in L.loop.body:
        if isinstance(s, ast.Assign) and isinstance(s.value, ast.Call) and L.full_target(s.value).endswith("random.choice"):
            change = norm(s.targets[0])
            src = norm(s.value.args[0]) if s.value.args else None
            ctx.ob(rule, f, s, src in f.params and "type" in src or src == "sim_type",
                   "the deformation type is drawn from the enabled types passed by the caller", node=s)
    if change is None:
        ctx.ob(rule, f, "deformation type draw", False, "the deformation type is drawn with np.random.choice -- not found", node=L.loop)
    kinds = {}
    for s in defs:
        g = guards_of(s, L.pm)
        sel = None
        for t, pol in g:
            if isinstance(t, ast.Compare) and norm(t.left) == change and isinstance(t.ops[0], ast.Eq) and pol:
                sel = const_int(t.comparators[0])
        v = s.value
        names = {n.id for n in ast.walk(v) if isinstance(n, ast.Name)}
        from_held = L.held in names and L.proposal not in names
        kind, detail, ok = "?", "", False
        if isinstance(v, ast.BinOp) and isinstance(v.op, ast.Add) and L.held in (norm(v.left), norm(v.right)):
            other = v.right if norm(v.left) == L.held else v.left
            d = _def_in_block(L, s, other)
            rnd = d is not None and isinstance(d, ast.Call) and "random" in L.full_target(d)
            kind, ok = "translation", rnd
            detail = "held + %s" % (norm(d) if d is not None else norm(other))
        elif isinstance(v, ast.BinOp) and isinstance(v.op, ast.Add):
            # dot(held - c, R) + c
            prod, c_add = (v.left, v.right) if isinstance(v.left, ast.Call) else (v.right, v.left)
            if isinstance(prod, ast.Call) and L.full_target(prod).endswith(("dot", "matmul")) and len(prod.args) == 2:
                a0, a1 = prod.args
                centred = isinstance(a0, ast.BinOp) and isinstance(a0.op, ast.Sub) and norm(a0.left) == L.held \
                    and norm(a0.right) == norm(c_add)
                cdef = _def_in_block(L, s, c_add)
                c_ok = cdef is not None and isinstance(cdef, ast.Call) and L.full_target(cdef).endswith("mean") \
                    and cdef.args and norm(cdef.args[0]) == L.held \
                    and any(k.arg == "axis" and const_int(k.value) == 0 for k in cdef.keywords)
                rdef = _def_in_block(L, s, a1)
                r_ok = rdef is not None and isinstance(rdef, ast.Call) and L.target(rdef) == "rotation_matrix" \
                    and len(rdef.args) == 2
                if r_ok:
                    ax = _def_in_block(L, s, rdef.args[0]) if isinstance(rdef.args[0], ast.Name) else rdef.args[0]
                    th = _def_in_block(L, s, rdef.args[1]) if isinstance(rdef.args[1], ast.Name) else rdef.args[1]
                    # axis: a random 3-vector; angle: a random scalar
                    ax_vec = isinstance(ax, ast.Call) and "random" in L.full_target(ax) and any(
                        isinstance(a_, ast.Constant) and a_.value == 3 for a_ in list(ax.args) + [k.value for k in ax.keywords])
                    th_sc = isinstance(th, ast.Call) and "random" in L.full_target(th) and not any(
                        isinstance(a_, ast.Constant) and a_.value == 3 for a_ in list(th.args[2:]) + [k.value for k in th.keywords if k.arg == "size"])
                    r_ok = ax_vec and th_sc
                kind, ok = "rotation", centred and c_ok and r_ok
                detail = "centred=%s centre=%s matrix=%s" % (centred, norm(cdef) if cdef is not None else None,
                                                             norm(rdef) if rdef is not None else None)
        elif isinstance(v, ast.Call) and L.target(v) == "move_mol_atom":
            kind = "single-atom move"
            ok = bool(v.args) and norm(v.args[0]) == L.held and len(v.args) >= 2
            # no fixed atom index / displacement: the move is drawn at random
            kw = {k.arg for k in v.keywords}
            ok = ok and not ({"atom_index", "displ"} & kw) and len(v.args) <= 2
            detail = norm(v)
        kinds[sel] = kind
        ctx.ob(rule, f, s, ok and from_held and sel is not None,
               "proposal for type %s is a %s of the held configuration%s" % (sel, kind, "" if from_held else
                                                                            " -- it does not derive from the held configuration alone")
               + ("" if ok else " -- shape not as required: %s" % detail), node=s, selected_by=sel, detail=detail)
    ctx.ob(rule, f, "type -> move table %s" % kinds, kinds == {0: "translation", 1: "rotation", 2: "single-atom move"},
           "types 0/1/2 select translation / rotation about the centroid / single-atom move", node=L.loop)


def _def_in_block(L: Loop, st, expr) -> Optional[ast.AST]:
    """Value of the definition of the name ``expr`` reaching ``st`` when it is unique and sits in st's block."""
    if not isinstance(expr, ast.Name):
        return expr
    nd = L.cfg.node_of(st)
    ds = L.rd.at(nd, expr.id)
    if len(ds) != 1 or not isinstance(ds[0].ast, ast.Assign):
        return None
    blk = _block_of(st, L.pm)
    if blk is None or not any(ds[0].ast is s for s in blk):
        return None
    return ds[0].ast.value


def r9_4(ctx: Ctx, L: Loop, rule="R9.4"):
    ok = bool(L.rets) and all(norm(r.value) == L.held for r in L.rets)
    ctx.ob(rule, L.f, L.rets[0] if L.rets else "return", ok,
           "the search returns the held (last accepted) configuration", node=L.rets[0] if L.rets else L.f.node)
    # the python engine's result is what the dispatcher returns
    disp = ctx.func("_backend.minimize_molecules")
    call = [c for c in calls_in(disp.node) if call_name(c) == L.f.name]
    okd = False
    if call:
        tgt = [s for s in walk_no_nested(disp.node) if isinstance(s, ast.Assign) and s.value is call[0]]
        rets = [r for r in walk_no_nested(disp.node) if isinstance(r, ast.Return) and r.value is not None]
        okd = bool(tgt) and any(norm(r.value) == norm(tgt[0].targets[0]) for r in rets) or \
            any(r.value is call[0] for r in rets)
    ctx.ob(rule, disp, call[0] if call else "dispatch", okd, "the dispatcher returns the engine's result unchanged",
           node=call[0] if call else disp.node)


def r9_5(ctx: Ctx, L: Loop, rule="R9.5"):
    f = L.f
    ok_test = L.counter is not None and L.budget in f.params
    ctx.ob(rule, f, "while " + norm(L.loop.test), ok_test,
           "the loop runs while the counter is below the prescribed number of steps", node=L.loop)
    if not ok_test:
        return
    init = [s for s in stmts_sorted(f.node) if isinstance(s, ast.Assign) and norm(s.targets[0]) == L.counter
            and s.lineno < L.loop.lineno]
    ctx.ob(rule, f, init[-1] if init else "counter initialisation", bool(init) and const_int(init[-1].value) == 0,
           "the counter starts at 0", node=init[-1] if init else f.node)
    # best-energy variable: compared with the held energy by a strict <
    from ..cfg import resolve_flags
    # a path that ends in `raise` abandons the search altogether: there is no bookkeeping to keep on it
    paths = [p_ for p_ in resolve_flags(enum_paths(L.loop.body)) if p_.end != "raise"]
    ctx.extra["loop_body_paths"] = len(paths)
    ctx.floor(rule, len(paths), 4, "paths of the loop body")
    best = None
    from ..cfg import canon_test, ctext
    cmp_sites = [n.test for n in walk_no_nested(L.acc_if) if isinstance(n, ast.If) and n is not L.acc_if] + \
        [n.value for n in walk_no_nested(L.loop) if isinstance(n, ast.Assign) and isinstance(n.value, (ast.Compare, ast.UnaryOp))]
    for t0_ in cmp_sites:
        if True:
            t_ = t0_
            while isinstance(t_, ast.UnaryOp) and isinstance(t_.op, ast.Not):
                t_ = t_.operand
            if isinstance(t_, ast.Compare) and len(t_.ops) == 1 and isinstance(t_.left, ast.Name) and isinstance(t_.comparators[0], ast.Name):
                names_ = [t_.left.id, t_.comparators[0].id]
                if L.e0 in names_ and names_[0] != names_[1]:
                    other_ = [x for x in names_ if x != L.e0][0]
                    # the held energy is never NaN (R9.6 rejects NaN proposals), so not (a >= b) and a < b agree here
                    if canon_test(t0_)[0] == ctext("%s < %s" % (L.e0, other_))[0]:
                        best = other_
    for i, p in enumerate(paths):
        resets = [s for s in p.stmts() if isinstance(s, ast.Assign) and norm(s.targets[0]) == L.counter]
        incs = [s for s in p.stmts() if isinstance(s, ast.AugAssign) and norm(s.target) == L.counter]
        # net effect along the path: an increment followed by the reset is a reset (the counter ends at 0); a reset followed
        # by an increment is neither
        ops_ = [s for s in p.stmts() if s in resets or s in incs]
        good_reset = len(resets) == 1 and const_int(resets[0].value) == 0 and (not incs or (ops_ and ops_[-1] is resets[0] and len(incs) == 1
                                                                                          and isinstance(incs[0].op, ast.Add) and const_int(incs[0].value) == 1))
        good_inc = len(incs) == 1 and isinstance(incs[0].op, ast.Add) and const_int(incs[0].value) == 1 and not resets
        accepted = any(any(x is L.acc_call for x in ast.walk(t)) and o for t, o in p.conds())
        strict = None
        for t, o in p.conds():
            if best:
                wt_, wp_ = ctext("%s < %s" % (L.e0, best))
                ct_, cp_ = canon_test(t, o)
                if ct_ == wt_:
                    strict = (cp_ == wp_)
        min_upd = any(isinstance(s, ast.Assign) and norm(s.targets[0]) == best and norm(s.value) == L.e0 for s in p.stmts()) if best else False
        want_reset = bool(accepted and strict)
        ok = (good_reset and want_reset and min_upd) or (good_inc and not want_reset and not min_upd)
        ok = ok and p.end in ("fall", "continue")
        ctx.ob(rule, f, "body path %d: %s" % (i, _pdesc(p, L)), ok,
               "exactly one of {counter = 0, counter += 1} per iteration; the reset happens exactly when an "
               "accepted energy is strictly below the running minimum, which is updated on the same path"
               + ("" if ok else " -- resets=%d increments=%d accepted=%s strictly-lower=%s minimum-updated=%s"
                  % (len(resets), len(incs), accepted, strict, min_upd)), node=L.loop)
    if best is None:
        ctx.ob(rule, f, "running minimum", False, "a strict comparison `held energy < running minimum` guards the reset "
               "-- not found", node=L.acc_if)
    else:
        binit = [s for s in stmts_sorted(f.node) if isinstance(s, ast.Assign) and norm(s.targets[0]) == best and s.lineno < L.loop.lineno]
        ctx.ob(rule, f, binit[-1] if binit else "minimum initialisation", bool(binit) and norm(binit[-1].value) == L.e0,
               "the running minimum starts at the initial energy", node=binit[-1] if binit else f.node)


def _pdesc(p, L) -> str:
    bits = []
    for t, o in p.conds():
        txt = norm(t)
        if any(x is L.acc_call for x in ast.walk(t)):
            txt = "accept"
        bits.append(("" if o else "not ") + txt)
    return ", ".join(bits) + " => " + p.end


def r9_6(ctx: Ctx, L: Loop, rule="R9.6"):
    acc = L.acc
    ps = acc.params
    # call site: two positional arguments, no override of the acceptance constant
    c = L.acc_call
    ctx.ob(rule, L.f, c, len(c.args) == 2 and not c.keywords and L.order_ok,
           "the loop calls the acceptance rule with (held energy, proposal energy), in that order, and the default "
           "acceptance" + ("" if L.order_ok else " -- the energies are passed in the opposite order"), node=c)
    defaults = acc.node.args.defaults
    dval = defaults[-1] if defaults else None
    ctx.ob(rule, acc, "default acceptance = %s" % norm(dval), isinstance(dval, ast.Constant) and dval.value == 0.01 and len(ps) == 3,
           "the acceptance constant is 0.01", node=acc.node)
    e0, e1, a = ps[0], ps[1], ps[2] if len(ps) > 2 else None
    from ..cfg import resolve_flags as _rf
    paths = [p for p in _rf(enum_paths(acc.node.body)) if p.end in ("return",)]
    env: Dict[str, ast.AST] = {}

    def expand(e, depth=4):
        class T(ast.NodeTransformer):
            def visit_Name(self, node):
                if node.id in env and depth:
                    return expand(env[node.id], depth - 1)
                return node
        import copy
        return T().visit(copy.deepcopy(e))
    n_always = n_draw = 0
    for p in paths:
        # the values of the locals on this path (the last assignment before the return wins)
        env.clear()
        for s_ in p.stmts():
            if isinstance(s_, ast.Assign) and isinstance(s_.targets[0], ast.Name):
                env[s_.targets[0].id] = expand(s_.value) if any(isinstance(x_, ast.Name) and x_.id == s_.targets[0].id for x_ in ast.walk(s_.value)) else s_.value
        ret = expand(p.end_node.value)
        draws = [x for x in ast.walk(ret) if isinstance(x, ast.Call) and "random" in norm(x.func)]
        conds = []
        for t, o in p.conds():
            while isinstance(t, ast.UnaryOp) and isinstance(t.op, ast.Not):
                t, o = t.operand, not o
            conds.append((norm(expand(t)), o))
        better = any((txt.replace(" ", "") in ("%s/%s>=1" % (e0, e1), "%s<=%s" % (e1, e0), "%s>=%s" % (e0, e1),
                                               "1<=%s/%s" % (e0, e1))) and o for txt, o in conds)
        if better:
            n_always += 1
            rtxt = norm(ret).replace(" ", "")
            truthy = rtxt in ("%s/%s>=1" % (e0, e1), "True", "%s<=%s" % (e1, e0), "%s>=%s" % (e0, e1))
            ctx.ob(rule, acc, "path [%s] returns %s" % (conds, norm(ret)), not draws and truthy,
                   "a proposal with equal or lower energy is accepted without a random draw", node=p.end_node)
        else:
            n_draw += 1
            ok = len(draws) == 1 and isinstance(ret, ast.Compare) and isinstance(ret.ops[0], (ast.LtE, ast.Lt)) \
                and any(x is draws[0] for x in ast.walk(ret.left))
            rhs = norm(ret.comparators[0]).replace(" ", "") if isinstance(ret, ast.Compare) else ""
            okr = rhs in ("%s*(%s/%s)" % (a, e0, e1), "%s*%s/%s" % (a, e0, e1), "%s/%s*%s" % (e0, e1, a), "(%s/%s)*%s" % (e0, e1, a))
            uniform = bool(draws) and norm(draws[0].func).endswith(("random.rand", "random.random", "random.uniform", "random.random_sample"))
            ctx.ob(rule, acc, "path [%s] returns %s" % (conds, norm(ret)), ok and okr and uniform,
                   "a worse proposal is accepted iff one uniform draw is below acceptance * E_held / E_new", node=p.end_node)
    ctx.ob(rule, acc, "paths: %d without draw, %d with one draw" % (n_always, n_draw), n_always == 1 and n_draw == 1,
           "the rule has exactly the two cases of the Metropolis criterion", node=acc.node)


# ----------------------------------------------------------------------------------------------------------------
# NaN energies (used by C06/R6.8): the held configuration is never replaced by a proposal whose energy is not a number

def _nan_eval(t: ast.AST, tainted: Set[str]):
    """Three-valued truth of a test when every tainted name holds NaN (None = not known)."""
    def isnan(e):
        if isinstance(e, ast.Name):
            return e.id in tainted
        if isinstance(e, ast.BinOp) and isinstance(e.op, (ast.Add, ast.Sub, ast.Mult, ast.Div)):
            return isnan(e.left) or isnan(e.right)
        if isinstance(e, ast.UnaryOp) and isinstance(e.op, (ast.USub, ast.UAdd)):
            return isnan(e.operand)
        return False
    if isinstance(t, ast.UnaryOp) and isinstance(t.op, ast.Not):
        v = _nan_eval(t.operand, tainted)
        return None if v is None else not v
    if isinstance(t, ast.BoolOp):
        vs = [_nan_eval(v, tainted) for v in t.values]
        if isinstance(t.op, ast.And):
            return False if any(v is False for v in vs) else (True if all(v is True for v in vs) else None)
        return True if any(v is True for v in vs) else (False if all(v is False for v in vs) else None)
    if isinstance(t, ast.Compare) and len(t.ops) == 1:
        if isnan(t.left) or isnan(t.comparators[0]):
            if isinstance(t.ops[0], (ast.Lt, ast.LtE, ast.Gt, ast.GtE, ast.Eq)):
                return False
            if isinstance(t.ops[0], ast.NotEq):
                return True
        return None
    if isinstance(t, ast.Call) and len(t.args) == 1 and isnan(t.args[0]):
        nm = call_name(t)
        if nm == "isnan":
            return True
        if nm == "isfinite":
            return False
    return None


def nan_accept_paths(fn: ast.AST):
    """(loop, [(path, store)]) - paths through one iteration of the search loop on which the held configuration (the
    value the function returns) is rebound although every comparison of the proposal's energy is evaluated as it is for
    NaN; `undecided` counts accept paths guarded by a test on the energy this evaluation cannot read (a call)."""
    from ..cfg import resolve_flags
    evals = {s.targets[0].id for s in walk_no_nested(fn) if isinstance(s, ast.Assign) and len(s.targets) == 1
             and isinstance(s.targets[0], ast.Name) and isinstance(s.value, ast.Call) and call_name(s.value) == "Chi2Calculator"}
    held = {r.value.id for r in walk_no_nested(fn) if isinstance(r, ast.Return) and isinstance(r.value, ast.Name)}
    loops = [w for w in walk_no_nested(fn) if isinstance(w, ast.While)]
    if not evals or not held or len(loops) != 1:
        return None
    loop = loops[0]

    def is_eval(v):
        return isinstance(v, ast.Call) and isinstance(v.func, ast.Name) and v.func.id in evals
    hits, undecided, accepts = [], 0, 0
    for p in resolve_flags(enum_paths(loop.body)):
        tainted: Set[str] = set()
        state = "ok"          # ok | infeasible | unknown
        seen_eval = False
        store = None
        used = []
        for ev in p.events:
            if ev[0] == "s":
                st = ev[1]
                if isinstance(st, ast.Assign) and len(st.targets) == 1:
                    tg, v = st.targets[0], st.value
                    pairs = []
                    if isinstance(tg, ast.Name):
                        pairs = [(tg, v)]
                    elif isinstance(tg, ast.Tuple) and isinstance(v, ast.Tuple) and len(tg.elts) == len(v.elts):
                        pairs = list(zip(tg.elts, v.elts))
                    elif isinstance(tg, ast.Tuple):
                        pairs = [(e_, None) for e_ in tg.elts]
                    new_t = set(tainted)
                    for a, b in pairs:
                        if not isinstance(a, ast.Name):
                            continue
                        if b is not None and is_eval(b):
                            new_t.add(a.id)
                            seen_eval = True
                        elif b is not None and isinstance(b, (ast.Name, ast.BinOp, ast.UnaryOp)) and _nan_eval(
                                ast.Compare(left=b, ops=[ast.Lt()], comparators=[ast.Constant(0)]), tainted) is False:
                            new_t.add(a.id)
                        else:
                            new_t.discard(a.id)
                        if a.id in held and seen_eval and state == "ok" and store is None:
                            store = st
                    tainted = new_t
            elif ev[0] == "c" and seen_eval and store is None and state == "ok":
                t, o = ev[1], ev[2]
                used.append((t, o))
                v = _nan_eval(t, tainted)
                if v is None:
                    if any(isinstance(n, ast.Name) and n.id in tainted for n in ast.walk(t)):
                        state = "unknown"
                elif v != o:
                    state = "infeasible"
        if any(isinstance(st, ast.Assign) and any(isinstance(n, ast.Name) and n.id in held and isinstance(n.ctx, ast.Store)
                                                  for t_ in st.targets for n in ast.walk(t_)) for st in p.stmts()) and seen_eval:
            accepts += 1
        if store is not None and state == "ok":
            hits.append((used, store))
        elif state == "unknown":
            undecided += 1
    return loop, hits, undecided, accepts


def nan_never_accepted(ctx: Ctx, rule="R6.8"):
    f = ctx.repo.func("_minimize_molecules", required=False)
    if f is None:
        cands = [g for g in ctx.repo.funcs.values() if any(call_name(c) == "Chi2Calculator" for c in calls_in(g.node))
                 and any(isinstance(w, ast.While) for w in walk_no_nested(g.node))]
        f = cands[0] if len(cands) == 1 else None
    res = nan_accept_paths(f.node) if f is not None else None
    from ..fixtures import check_fixture
    check_fixture(ctx, rule, "nanaccept.py",
                  lambda repo: sum(len((nan_accept_paths(f_.node) or (0, [], 0, 0))[1]) for f_ in repo.funcs.values()), expect_exact=2)
    if res is None:
        anchor = f if f is not None else next(iter(ctx.repo.funcs.values()))
        ctx.ob(rule, anchor, "search loop", True, "the search loop (one while loop, an energy calculator, the returned configuration) "
               "is not written in a form this rule reads; not decided on this tree", undecided=True)
        return
    ctx.seen(f)
    loop, hits, undecided, accepts = res
    if hits:
        p, st = hits[0]
        conds = " and ".join(("" if o else "not ") + "(" + norm(t)[:90] + ")" for t, o in p[-2:]) or "the energy has been computed"
        ctx.ob(rule, f, st, False,
               "a proposal whose energy is not a number is never taken as the held configuration -- `%s` is reached when %s, "
               "which holds when the proposal's energy is NaN (every ordering comparison with NaN is false): a degenerate "
               "single-atom move then replaces the coordinates by NaN" % (norm(st)[:60], conds), node=st)
    elif accepts == 0:
        ctx.ob(rule, f, "accept store", True, "no path of the loop rebinds the returned configuration after an energy evaluation; "
               "not decided on this tree", undecided=True, node=loop)
    else:
        ctx.ob(rule, f, "%d accepting path(s) of the loop body" % accepts, True,
               "on no path is the held configuration replaced when the comparisons on the proposal's energy are evaluated as "
               "they are for NaN (%d path(s) are guarded by the acceptance call, whose form is the other half of this rule)" % undecided,
               node=loop)
