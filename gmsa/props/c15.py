"""C15 - topology reader yields exactly the file's atoms and bond graph (structural clauses).

R15.1 both endpoints of every gathered bond are translated number -> position; the map entry, the
      atom record and the running index advance together
R15.2 the sections parsed as bond lines == the sections gathered into the bond graph == {bonds, constraints, pairs}
R15.3 connect is symmetric and keyed by position (AtomTop.__hash__ is the index)
R15.4 copies are independent: AtomTop.copy clones the bond set, MoleculeTop.copy rebuilds every attribute
R15.5 the connectivity test contains no input-proportional recursion
R15.6 repeated sections accumulate (same rule as C16/R16.1)
R15.7 reading a topology keeps no table between calls (no cached file text)
"""
from __future__ import annotations

import ast
from typing import Dict, List, Optional, Set, Tuple

from ..cfg import (call_name, calls_in, walk_no_nested, parents_map, guards_of, attr_chain,
                   enum_paths, const_int, base_var, enclosing_stmt, ancestors)
from ..core import AnalysisError, Ctx, Func, norm
from ..util import local_callgraph, cycles_reachable, reachable, stmts_sorted
from . import c16

SPEC = {
    "explanation": (
        "Structural rules over the topology reader.  R15.1 follows both components of every bond tuple in "
        "_itp_top_atoms to a lookup in the number->position map and checks, on every path of the atom loop, "
        "that map entry, atom record and running index are produced together.  R15.2 compares the section-name "
        "tables of ItpSection.parse_line and _parse_itp_bonds.  R15.3/R15.4 are effect rules on connect / "
        "__hash__ / copy.  R15.5 searches the name-resolved call graph for a cycle reachable from are_connected "
        "(recursion depth proportional to the molecule size overflows the interpreter stack for chains of a "
        "few thousand atoms).  R15.6 re-uses R16.1.  Tokenisation of exotic lines is not decided."),
    "exhaustive": True,
    "trusted_base": ["annotation-driven call graph; unknown receivers resolve to every method of that name (over-approximation)"],
    "assumptions": ["atom numbers in the [ atoms ] section are unique"],
}

BOND_SECTIONS = {"bonds", "constraints", "pairs"}


def run(ctx: Ctx):
    ctx.attempt("R15.1", lambda: r15_1(ctx))
    ctx.attempt("R15.2", lambda: r15_2(ctx))
    ctx.attempt("R15.3", lambda: r15_3(ctx))
    ctx.attempt("R15.4", lambda: r15_4(ctx))
    ctx.attempt("R15.5", lambda: r15_5(ctx))
    ctx.attempt("R15.6", lambda: c16.r16_1(ctx, rule="R15.6"))
    ctx.attempt("R15.6", lambda: c16.r16_2b(ctx, rule="R15.6"))       # every line of a section is filed under that section (the bond graph reads them from there)
    from ..util import persistent_state
    ctx.attempt("R15.7", lambda: persistent_state(ctx, "R15.7", [ctx.func(q) for q in ("ItpFile.__init__", "_itp_top_atoms", "_parse_itp_bonds", "MoleculeTop.__init__")],
                     "reading a topology"))



def r15_1(ctx: Ctx):
    f = ctx.func("_itp_top_atoms")
    fn = f.node
    # the map: dict stored with key <x>.number
    map_var = None
    map_store = None
    for st in walk_no_nested(fn):
        if isinstance(st, ast.Assign) and isinstance(st.targets[0], ast.Subscript) \
                and isinstance(st.targets[0].value, ast.Name) \
                and isinstance(st.targets[0].slice, ast.Attribute) and st.targets[0].slice.attr == "number":
            map_var, map_store = st.targets[0].value.id, st
    if map_var is None:
        # no number -> position table at all: how are the endpoints of a bond turned into positions?
        apps = [c for c in calls_in(fn) if call_name(c) == "append" and c.args and isinstance(c.args[0], ast.Tuple)
                and len(c.args[0].elts) == 2 and any("bond" in norm(e) or "[0]" in norm(e) or "[1]" in norm(e) for e in c.args[0].elts)]
        for c in apps:
            if all(isinstance(e, (ast.BinOp, ast.Subscript, ast.Name)) for e in c.args[0].elts) and \
                    not any(isinstance(e, ast.Subscript) and isinstance(e.value, ast.Name) and not norm(e.value).startswith("bond")
                            for e in c.args[0].elts):
                ctx.ob("R15.1", f, c, False,
                       "atom numbers in a topology are arbitrary (possibly non-contiguous): both endpoints of a bond must be "
                       "translated through a table built from the [ atoms ] section -- `%s` computes positions arithmetically, "
                       "which is wrong as soon as the numbering has a gap" % norm(c.args[0]), node=c)
                return
        raise AnalysisError("R15.1: number->position map store (`m[line.number] = index`) not found in _itp_top_atoms")
    # atom loop: every path through its body does all of {append atom, store map, advance index} or none
    loop = None
    for n in walk_no_nested(fn):
        if isinstance(n, ast.For) and any(s is map_store for s in ast.walk(n)):
            loop = n
    idx_expr = norm(map_store.value)
    # the position may be the index of an enumerate() over the atom lines: then every enumerated line must be recorded
    uses_enum = isinstance(loop.iter, ast.Call) and call_name(loop.iter) == "enumerate" and isinstance(loop.target, ast.Tuple) \
        and norm(loop.target.elts[0]) == idx_expr and (len(loop.iter.args) == 1 or const_int(loop.iter.args[1]) == 0) \
        and not any(k_.arg == "start" and const_int(k_.value) != 0 for k_ in loop.iter.keywords)
    atoms_list = None
    n_paths = 0
    for p in enum_paths(loop.body):
        stmts = p.stmts()
        app = [s for s in stmts if isinstance(s, ast.Expr) and isinstance(s.value, ast.Call)
               and call_name(s.value) == "append" and isinstance(s.value.func.value, ast.Name)
               and s.value.func.value.id != map_var]
        sto = [s for s in stmts if s is map_store]
        inc = [s for s in stmts if isinstance(s, ast.AugAssign) and norm(s.target) == idx_expr
               and isinstance(s.op, ast.Add) and const_int(s.value) == 1]
        n_paths += 1
        if app:
            atoms_list = app[0].value.func.value.id
        uses_len = "len(" in idx_expr
        ok = (len(app), len(sto)) in ((1, 1), (0, 0)) and (uses_len or uses_enum or len(inc) == len(sto))
        if uses_enum:
            ok = (len(app), len(sto)) == (1, 1) and not inc      # a skipped line would still consume a position
        if ok and sto and not uses_len and not uses_enum:
            # the index stored is the one before the increment and the record is appended in the same pass
            order = [stmts.index(sto[0]), stmts.index(inc[0])]
            ok = order[0] < order[1]
        ctx.ob("R15.1", f, "atom loop path: %s" % p.describe()[:200], ok,
               "atom record, number->position entry and running index advance together (one each or none)",
               node=loop, appends=len(app), map_stores=len(sto), increments=len(inc))
    ctx.floor("R15.1", n_paths, 1, "paths of the atom loop body")
    # the index starts at 0
    if "len(" not in idx_expr and not uses_enum:
        init = [s for s in stmts_sorted(fn) if isinstance(s, ast.Assign) and norm(s.targets[0]) == idx_expr
                and s.lineno < loop.lineno]
        ctx.ob("R15.1", f, init[-1] if init else "index initialisation", bool(init) and const_int(init[-1].value) == 0,
               "positions are 0-based", node=init[-1] if init else fn)
    # bond translation
    n_bonds = 0
    for c in calls_in(fn):
        if call_name(c) == "append" and c.args and isinstance(c.args[0], ast.Tuple) and len(c.args[0].elts) == 2 \
                and isinstance(c.func.value, ast.Name) and c.func.value.id != atoms_list:
            n_bonds += 1
            from ..pat import expand_single_defs as _xsd15
            e0, e1 = [_xsd15(fn, e_, 1, skip=(map_var,)) for e_ in c.args[0].elts]
            def translated(e):
                return isinstance(e, ast.Subscript) and isinstance(e.value, ast.Name) and e.value.id == map_var
            ends = [norm(e.slice) if translated(e) else None for e in (e0, e1)]
            ok = all(ends) and ends[0] != ends[1]
            ctx.ob("R15.1", f, c, ok,
                   "both endpoints of a bond are translated through the number->position map, and they are the "
                   "two different endpoints of the record" + ("" if ok else " -- endpoints: %s" % ends), node=c)
    if not n_bonds:
        # the same translation as a comprehension: [(m[a], m[b]) for ... in ...]
        for t_ in ast.walk(fn):
            if isinstance(t_, ast.Tuple) and len(t_.elts) == 2 and all(
                    isinstance(e, ast.Subscript) and isinstance(e.value, ast.Name) and e.value.id == map_var for e in t_.elts) \
                    and not isinstance(t_.ctx, ast.Store):
                n_bonds += 1
                ends = [norm(e.slice) for e in t_.elts]
                ctx.ob("R15.1", f, t_, ends[0] != ends[1],
                       "both endpoints of a bond are translated through the number->position map, and they are the "
                       "two different endpoints of the record" + ("" if ends[0] != ends[1] else " -- endpoints: %s" % ends), node=t_)
    ctx.floor("R15.1", n_bonds, 1, "bond translation sites")
    # validation of a bond's endpoints goes through the table as well: a range test on the atom *number* (against the
    # number of atoms) assumes contiguous numbering from 1
    for n_ in walk_no_nested(fn):
        if isinstance(n_, ast.If) and any(isinstance(x, ast.Raise) for x in ast.walk(n_)):
            t_ = n_.test
            lens = [c_ for c_ in ast.walk(t_) if isinstance(c_, ast.Call) and call_name(c_) == "len" and c_.args
                    and norm(c_.args[0]) in (atoms_list or "atoms", map_var)]
            bond_loops = [a_ for a_ in walk_no_nested(fn) if isinstance(a_, ast.For) and any(n_ is x for x in ast.walk(a_)) and a_ is not loop]
            loop_vars = {x.id for a_ in bond_loops for x in ast.walk(a_.target) if isinstance(x, ast.Name)}
            reads_bond = any(isinstance(x, ast.Name) and x.id in loop_vars for x in ast.walk(t_))
            ordering = any(isinstance(x, ast.Compare) and any(isinstance(o_, (ast.Lt, ast.LtE, ast.Gt, ast.GtE)) for o_ in x.ops) for x in ast.walk(t_))
            if lens and reads_bond and ordering:
                ctx.ob("R15.1", f, n_, False, "a bond's atom numbers are only ever looked up in the number->position table -- `%s` compares "
                       "them with the number of atoms, which refuses valid files whose numbering has a gap or does not start at 1"
                       % norm(t_)[:80], node=n_)
    # tuple order matches AtomTop's constructor
    at_init = ctx.func("AtomTop.__init__")
    mt_init = ctx.func("MoleculeTop.__init__")
    params = [p for p in at_init.params if p != "self"]
    rec = None
    for c in calls_in(fn):
        if call_name(c) == "append" and isinstance(c.func.value, ast.Name) and c.func.value.id == atoms_list \
                and c.args and isinstance(c.args[0], ast.Tuple):
            rec = c.args[0]
    if rec is not None:
        attrs = [e.attr if isinstance(e, ast.Attribute) else norm(e) for e in rec.elts]
        ctx.ob("R15.1", f, rec, attrs == params[:len(attrs)],
               "the atom record lists (name, residue name, residue number) in the order AtomTop's constructor takes them",
               node=rec, record=attrs, constructor=params)
    # MoleculeTop.__init__ : AtomTop(*atom, index) with the enumerate index, connect by position
    ctor = [c for c in calls_in(mt_init.node) if call_name(c) == "AtomTop"]
    ok = False
    if ctor:
        c = ctor[0]
        loopm = [n for n in walk_no_nested(mt_init.node) if isinstance(n, ast.For) and any(x is c for x in ast.walk(n))]
        if not loopm:
            # built by a comprehension: the generator plays the part of the loop
            loopm = [g_ for n in ast.walk(mt_init.node) if isinstance(n, (ast.ListComp, ast.GeneratorExp)) and any(x is c for x in ast.walk(n.elt))
                     for g_ in n.generators[:1]]
        if loopm and isinstance(loopm[0].iter, ast.Call) and call_name(loopm[0].iter) == "enumerate" \
                and isinstance(loopm[0].target, ast.Tuple):
            idx = norm(loopm[0].target.elts[0])
            ok = bool(c.args) and norm(c.args[-1]) == idx and len(loopm[0].iter.args) == 1
    ctx.ob("R15.1", mt_init, ctor[0] if ctor else "AtomTop construction", ok,
           "each atom is constructed with its 0-based file position as index", node=ctor[0] if ctor else mt_init.node)
    con = [c for c in calls_in(mt_init.node) if call_name(c) == "connect"]
    okc = False
    if con:
        c = con[0]
        r, a = norm(c.func.value), norm(c.args[0]) if c.args else ""
        okc = isinstance(c.func.value, ast.Subscript) and c.args and isinstance(c.args[0], ast.Subscript) \
            and norm(c.func.value.value) == norm(c.args[0].value) and r != a
    ctx.ob("R15.1", mt_init, con[0] if con else "connect", okc,
           "every gathered pair connects the atoms at the two translated positions", node=con[0] if con else mt_init.node)


def _str_set(e: ast.AST) -> Optional[Set[str]]:
    if isinstance(e, (ast.List, ast.Tuple, ast.Set)) and all(isinstance(x, ast.Constant) and isinstance(x.value, str) for x in e.elts):
        return {x.value for x in e.elts}
    return None


def r15_2(ctx: Ctx):
    pl = ctx.func("ItpSection.parse_line")
    gb = ctx.func("_parse_itp_bonds")
    parsed: Optional[Set[str]] = None
    for n in walk_no_nested(pl.node):
        if isinstance(n, ast.If) and any(call_name(c) == "ItpLineBonds" for s in n.body for c in calls_in(s)):
            t = n.test
            if isinstance(t, ast.Compare) and isinstance(t.ops[0], ast.In):
                parsed = _str_set(t.comparators[0])
            elif isinstance(t, ast.Compare) and isinstance(t.ops[0], ast.Eq) and isinstance(t.comparators[0], ast.Constant):
                parsed = {t.comparators[0].value}
            elif isinstance(t, ast.BoolOp) and isinstance(t.op, ast.Or):
                parsed = set()
                for v in t.values:
                    if isinstance(v, ast.Compare) and isinstance(v.ops[0], ast.Eq) and isinstance(v.comparators[0], ast.Constant):
                        parsed.add(v.comparators[0].value)
    gathered: Optional[Set[str]] = None
    conditional: List[Tuple[str, str]] = []
    pmg = parents_map(gb.node)
    for n in walk_no_nested(gb.node):
        if isinstance(n, ast.For):
            s = _str_set(n.iter)
            if s is None and isinstance(n.iter, ast.Name):
                # the key list is built in a local: literal initialisation plus append/extend/+= of literals
                nm_ = n.iter.id
                s, found = set(), False
                for st in walk_no_nested(gb.node):
                    add = None
                    if isinstance(st, ast.Assign) and norm(st.targets[0]) == nm_:
                        add = _str_set(st.value)
                        found = found or add is not None
                        if add is None:
                            s, found = None, False
                            break
                    elif isinstance(st, ast.AugAssign) and norm(st.target) == nm_ and isinstance(st.op, ast.Add):
                        add = _str_set(st.value)
                    elif isinstance(st, ast.Expr) and isinstance(st.value, ast.Call) and isinstance(st.value.func, ast.Attribute) \
                            and norm(st.value.func.value) == nm_ and st.value.args:
                        if st.value.func.attr == "append" and isinstance(st.value.args[0], ast.Constant):
                            add = {st.value.args[0].value}
                        elif st.value.func.attr == "extend":
                            add = _str_set(st.value.args[0])
                        elif st.value.func.attr in ("remove", "pop", "clear"):
                            s, found = None, False
                            break
                    if add:
                        gs_ = guards_of(st, pmg)
                        if gs_:
                            conditional += [(k_, " and ".join(("" if p_ else "not ") + norm(t_) for t_, p_ in gs_)) for k_ in sorted(add)]
                        else:
                            s |= add
                if not found:
                    s = None
            if s is not None:
                gathered = s
                gl = [(" and ".join(("" if p_ else "not ") + norm(t_) for t_, p_ in guards_of(n, pmg)))]
                if gl != [""]:
                    conditional += [(k_, gl[0]) for k_ in sorted(s)]
    for k_, g_ in conditional:
        ctx.ob("R15.2", gb, "section '%s' gathered only when %s" % (k_, g_), False,
               "every listed pair of the bond, constraint and pair sections is an edge of the graph, whatever other "
               "sections the file has: a section gathered only under a condition drops its pairs otherwise", node=gb.node)
    if gathered is None:
        # explicit subscripts itp_file['bonds'] ...
        ks = {n.slice.value for n in ast.walk(gb.node) if isinstance(n, ast.Subscript)
              and isinstance(n.slice, ast.Constant) and isinstance(n.slice.value, str)}
        ks |= {c.args[0].value for c in calls_in(gb.node) if call_name(c) == "get" and c.args
               and isinstance(c.args[0], ast.Constant)}
        gathered = ks or None
    if parsed is None or gathered is None:
        ctx.ob("R15.2", gb, "section tables", True, "section tables not in literal form; not decided", undecided=True)
        return
    ctx.ob("R15.2", gb, "parsed as bond lines %s / gathered %s" % (sorted(parsed), sorted(gathered)),
           parsed == gathered == BOND_SECTIONS,
           "the bond graph is built from exactly the bond, constraint and pair sections, each parsed as bond lines",
           node=gb.node)
    # each gathered record contributes (atom_from, atom_to)
    tup = [c.args[0] for c in calls_in(gb.node) if call_name(c) == "append" and c.args and isinstance(c.args[0], ast.Tuple)]
    if not tup:
        # the records may be gathered by extend(<generator of pairs>) or a comprehension
        tup = [n_.elt for n_ in ast.walk(gb.node) if isinstance(n_, (ast.GeneratorExp, ast.ListComp)) and isinstance(n_.elt, ast.Tuple)
               and len(n_.elt.elts) == 2]
    ok = bool(tup) and [getattr(e, "attr", None) for e in tup[0].elts] == ["atom_from", "atom_to"]
    ctx.ob("R15.2", gb, tup[0] if tup else "gathered pair", ok, "each record contributes its two atom numbers (ai, aj)",
           node=tup[0] if tup else gb.node)
    if tup:
        from ..cfg import conjuncts
        gl_ = [x for t_, p_ in guards_of(tup[0], pmg) for x in conjuncts(t_, p_)]
        extra_ = [g for g in gl_ if not (g[1] and " in " in g[0])]       # `key in file` presence tests are harmless
        ctx.ob("R15.2", gb, "conditions on gathering a record: %s" % (gl_ or "none"), not extra_,
               "every record of the three sections becomes an edge: no record is skipped under a condition", node=tup[0])
    lb = ctx.func("ItpLineBonds._init_fields")
    from ..pat import find as pfind
    a_i = pfind(lb.node, "self._fields['ai'] = int(V_f[0])")
    a_j = pfind(lb.node, "self._fields['aj'] = int(V_f[1])")
    okf = bool(a_i) and bool(a_j) and a_i[0][1]["V_f"] == a_j[0][1]["V_f"] and \
        bool(pfind(lb.node, "%s = self.content.split()" % a_i[0][1]["V_f"]))
    ctx.ob("R15.2", lb, "ai/aj from the first two columns", okf, "ai, aj are the first two tokens of the line", node=lb.node)


def r15_3(ctx: Ctx):
    con = ctx.func("AtomTop.connect")
    hs = ctx.func("AtomTop.__hash__")
    other = [p for p in con.params if p != "self"][0]
    adds = []
    for c in calls_in(con.node):
        if call_name(c) == "add" and isinstance(c.func.value, ast.Attribute) and c.func.value.attr == "bonds" and c.args:
            recv = norm(c.func.value.value)
            a = c.args[0]
            arg = None
            if isinstance(a, ast.Call) and call_name(a) == "hash" and a.args:
                arg = norm(a.args[0])
            elif isinstance(a, ast.Attribute) and a.attr == "index":
                arg = norm(a.value)
            adds.append((recv, arg))
    ctx.ob("R15.3", con, "bond insertions %s" % adds, set(adds) == {("self", other), (other, "self")},
           "connect records the bond on both atoms, each holding the other's position", node=con.node)
    rets = [n for n in walk_no_nested(hs.node) if isinstance(n, ast.Return)]
    ctx.ob("R15.3", hs, rets[0] if rets else "hash", len(rets) == 1 and norm(rets[0].value) == "self.index",
           "the key stored in bond sets is the atom's 0-based position", node=rets[0] if rets else hs.node)


def r15_4(ctx: Ctx):
    ac = ctx.func("AtomTop.copy")
    ai = ctx.func("AtomTop.__init__")
    mc = ctx.func("MoleculeTop.copy")
    mi = ctx.func("MoleculeTop.__init__")
    # AtomTop.copy
    st = [s for s in walk_no_nested(ac.node) if isinstance(s, ast.Assign) and isinstance(s.targets[0], ast.Attribute)
          and s.targets[0].attr == "bonds"]
    ok = False
    if st:
        v = st[0].value
        ok = (isinstance(v, ast.Call) and ((call_name(v) == "copy" and norm(v.func.value) == "self.bonds") or
                                           (call_name(v) in ("set", "frozenset") and v.args and norm(v.args[0]) == "self.bonds"))) \
            or (isinstance(v, ast.SetComp))
    ctor = [c for c in calls_in(ac.node) if call_name(c) == "AtomTop"]
    fields_ok = bool(ctor) and [norm(a) for a in ctor[0].args] == ["self." + p for p in ai.params if p != "self"]
    ctx.ob("R15.4", ac, st[0] if st else "bond set of the copy", ok,
           "the copy owns a new bond set with the same members (not an alias of the original's)"
           + ("" if st else " -- the copy's bonds are never filled"), node=st[0] if st else ac.node)
    ctx.ob("R15.4", ac, ctor[0] if ctor else "constructor call", fields_ok,
           "the copy carries name, residue name, residue number and index of the original", node=ctor[0] if ctor else ac.node)
    # MoleculeTop.copy sets everything __init__ sets
    init_attrs = {s.targets[0].attr for s in walk_no_nested(mi.node) if isinstance(s, ast.Assign)
                  and isinstance(s.targets[0], ast.Attribute) and norm(s.targets[0].value) == "self"}
    init_attrs |= {e.attr for s in walk_no_nested(mi.node) if isinstance(s, ast.Assign) and isinstance(s.targets[0], ast.Tuple)
                   for e in s.targets[0].elts if isinstance(e, ast.Attribute) and norm(e.value) == "self"}
    init_attrs |= {s.target.attr for s in walk_no_nested(mi.node) if isinstance(s, ast.AnnAssign)
                   and isinstance(s.target, ast.Attribute) and norm(s.target.value) == "self"}
    copy_sets: Dict[str, ast.AST] = {}
    via_ctor = any(call_name(c) in ("MoleculeTop", "deepcopy") for c in calls_in(mc.node))
    for s in walk_no_nested(mc.node):
        if isinstance(s, ast.Assign) and isinstance(s.targets[0], ast.Attribute) and norm(s.targets[0].value) != "self":
            copy_sets[s.targets[0].attr] = s.value
    miss = sorted(init_attrs - set(copy_sets))
    ctx.ob("R15.4", mc, "attributes set by __init__ %s / by copy %s" % (sorted(init_attrs), sorted(copy_sets)),
           via_ctor or not miss, "the copy has every attribute a loaded topology has" +
           ("" if via_ctor or not miss else " -- missing: %s" % miss), node=mc.node)
    av = copy_sets.get("atoms")
    oka = via_ctor or (isinstance(av, ast.ListComp) and isinstance(av.elt, ast.Call) and call_name(av.elt) == "copy"
                       and norm(av.generators[0].iter) in ("self", "self.atoms"))
    ctx.ob("R15.4", mc, av if av is not None else "atoms of the copy", bool(oka),
           "the copy's atom list consists of copies of the atoms, in order", node=av if av is not None else mc.node)


def r15_5(ctx: Ctx):
    f = ctx.func("are_connected")
    from ..resolve import Resolver
    R = Resolver(ctx.repo)
    g = R.callgraph()
    ctx.extra["call_resolution"] = dict(R.stats)
    cyc = cycles_reachable(g, f.qual)
    reach = sorted(reachable(g, [f.qual]))
    ctx.extra["reachable_from_are_connected"] = reach
    if not cyc:
        ctx.ob("R15.5", f, "call graph below are_connected (%d functions)" % len(reach), True,
               "no recursion is reachable from the connectivity test", node=f.node)
    for c in cyc[:5]:
        fn = ctx.repo.funcs.get(c[0])
        ctx.ob("R15.5", fn or f, "recursive cycle " + " -> ".join(x.split(".")[-1] for x in c), False,
               "the walk recurses once per atom reached: chains of a few thousand atoms exceed the interpreter's "
               "recursion limit (RecursionError instead of an answer)", node=(fn or f).node)
    # the answer compares the number of reached atoms with the number of atoms
    from ..pat import find as pfind, has as phas
    atoms_p = f.params[0]
    rets = [n for n in walk_no_nested(f.node) if isinstance(n, ast.Return)]
    calls_w = pfind(f.node, "V_walk(%s, 0, V_acc)" % atoms_p)
    ok = False
    if calls_w and len(rets) == 1:
        acc = calls_w[0][1]["V_acc"]
        from ..pat import expand_single_defs as _xsd15
        ok = norm(_xsd15(f.node, rets[0].value, skip=(acc,))).replace(" ", "") in (("len(%s)==len(%s)" % (acc, atoms_p)), ("len(%s)==len(%s)" % (atoms_p, acc))) \
            and any(isinstance(s_, (ast.Assign, ast.AnnAssign)) and norm(s_.targets[0] if isinstance(s_, ast.Assign) else s_.target) == acc
                    and norm(s_.value) == "[]" for s_ in f.node.body) and rets[0].lineno > calls_w[0][0].lineno
        walker = ctx.repo.func(calls_w[0][1]["V_walk"], required=False)
        if walker is not None:
            ctx.seen(walker)
            _worklist(ctx, walker)
    ctx.ob("R15.5", f, rets[-1] if rets else "result", ok,
           "the answer is 'every atom was reached' (count of reached atoms == number of atoms)",
           node=rets[-1] if rets else f.node)


def _worklist(ctx: Ctx, w: Func, rule="R15.5"):
    """The reachability walk: seed the start atom, then repeatedly take an atom and, for each bonded atom, skip it
    when already reached, otherwise record it AND schedule it."""
    from ..pat import find as pfind
    atoms_p, start_p, acc_p = w.params[:3]
    # membership may be tested on a shadow set that mirrors the list of reached atoms (`seen = set(acc)`), kept in step
    # with it: then the set stands for the list in every test below
    shadow = [b_["V_s"] for _, b_ in pfind(w.node, "V_s = set(%s)" % acc_p)]
    member = shadow[0] if shadow else acc_p
    if shadow:
        adds = [c_ for c_ in calls_in(w.node) if call_name(c_) == "add" and norm(c_.func.value) == member]
        apps = [c_ for c_ in calls_in(w.node) if call_name(c_) == "append" and norm(c_.func.value) == acc_p]
        pm_ = parents_map(w.node)

        def _blk(c_):
            st_ = enclosing_stmt(c_, pm_)
            par_ = pm_.get(id(st_))
            for fld_ in ("body", "orelse"):
                if st_ in getattr(par_, fld_, []):
                    return id(getattr(par_, fld_)), norm(c_.args[0]) if c_.args else ""
            return None, ""
        in_step = sorted(_blk(c_) for c_ in adds) == sorted(_blk(c_) for c_ in apps)
        ctx.ob(rule, w, "shadow set `%s` of the reached atoms" % member, in_step,
               "the set used for membership tests receives exactly the atoms appended to the list of reached atoms, in the same branches",
               node=w.node)
    seed = pfind(w.node, "if %s not in %s:\n    ..." % (start_p, member))
    seed = [x for x in seed if any(call_name(c_) == "append" and norm(c_.func.value) == acc_p and c_.args and norm(c_.args[0]) == start_p
                                    for c_ in calls_in(x[0]))]
    ctx.ob(rule, w, seed[0][0] if seed else "seed", bool(seed), "the start atom is recorded as reached (once)", node=seed[0][0] if seed else w.node)
    loops = [n_ for n_ in w.node.body if isinstance(n_, ast.While)]
    if not loops:
        ctx.ob(rule, w, "worklist loop", True, "the walk is not a worklist loop; its logic is not decided on this tree", undecided=True)
        return
    wl = norm(loops[0].test)
    init = pfind(w.node, "%s = [%s]" % (wl, start_p)) or pfind(w.node, "%s = deque([%s])" % (wl, start_p))
    take = [b_["V_c"] for _, b_ in pfind(loops[0], "V_c = %s.pop()" % wl)] + [b_["V_c"] for _, b_ in pfind(loops[0], "V_c = %s.popleft()" % wl)]
    if not take:
        # the popped index used in place (`atoms[stack.pop()]`): still one atom taken per iteration
        pops_ = [c_ for c_ in calls_in(loops[0]) if call_name(c_) in ("pop", "popleft") and norm(c_.func.value) == wl and not c_.args]
        pm5_ = parents_map(loops[0])
        if len(pops_) == 1 and not any(isinstance(a_, (ast.For, ast.While)) and a_ is not loops[0] for a_ in ancestors(pops_[0], pm5_)):
            take = ["<in place>"]
    ctx.ob(rule, w, loops[0], bool(init) and len(take) == 1 and isinstance(loops[0].test, ast.Name),
           "the worklist starts with the start atom and the loop takes one atom per iteration until it is empty", node=loops[0])
    if len(take) != 1:
        return
    cur = take[0]
    inner = [n_ for n_ in loops[0].body if isinstance(n_, ast.For) and norm(n_.iter) == "%s[%s].bonds" % (atoms_p, cur)]
    if not inner:
        # the atom object bound to a local first (`a = atoms[<taken>]` ... `for n in a.bonds`)
        from ..pat import single_defs as _sd155
        sd5 = _sd155(w.node)
        for n_ in loops[0].body:
            if isinstance(n_, ast.For) and isinstance(n_.iter, ast.Attribute) and n_.iter.attr == "bonds" and isinstance(n_.iter.value, ast.Name) \
                    and n_.iter.value.id in sd5:
                dv = norm(sd5[n_.iter.value.id])
                if dv in ("%s[%s]" % (atoms_p, cur), "%s[%s.pop()]" % (atoms_p, wl), "%s[%s.popleft()]" % (atoms_p, wl)):
                    inner = [n_]
    if not inner:
        ctx.ob(rule, w, "neighbour loop", False, "every bonded atom of the atom taken is examined -- loop over its bonds not found", node=loops[0])
        return
    nb = norm(inner[0].target)
    n = 0
    for p in enum_paths(inner[0].body):
        reached = None
        for t, o in p.conds():
            tt = norm(t).replace(" ", "")
            if tt == ("%sin%s" % (nb, member)):
                reached = o
            elif tt == ("%snotin%s" % (nb, member)):
                reached = not o
        rec = [s_ for s_ in p.stmts() if norm(s_) == "%s.append(%s)" % (acc_p, nb)]
        sch = [s_ for s_ in p.stmts() if norm(s_) in ("%s.append(%s)" % (wl, nb), "%s.appendleft(%s)" % (wl, nb))]
        n += 1
        if reached is None:
            ok = False
            why = "the path does not test whether the bonded atom was reached already"
        elif reached:
            ok = not rec and not sch
            why = "an atom reached before is recorded or scheduled again"
        else:
            ok = len(rec) == 1 and len(sch) == 1
            why = "a newly reached atom must be recorded once and scheduled once (recorded %d, scheduled %d)" % (len(rec), len(sch))
        ctx.ob(rule, w, "neighbour path: %s" % p.describe()[:160], ok,
               "a bonded atom already reached is skipped; a new one is recorded as reached and put on the worklist"
               + ("" if ok else " -- " + why), node=inner[0])
    ctx.floor(rule, n, 2, "paths of the neighbour loop")
