"""C11 - System recognises exactly the molecule instances present, in file order (structural clauses).

R11.1 file order regardless of load order: the block list is sorted by start offset after every block insertion
R11.2 validate before state change: every raising validation dominates the first write to the system's state
R11.3 record-and-consume pairing in the run scanner: a match records one instance, consumes the matched run and
      advances by the pattern length; a mismatch advances by one
R11.4 one source of truth: iteration, integer/negative/slice indexing, length and composition derive from the same
      block list / the same generator, and the three molecule-building sites have the same shape
R11.5 the atom-by-atom name check dominates the stores of Molecule.__init__ and compares residue and atom name
      under one running index
R11.7 the views of a System (iteration, indexing, length, composition, the instance generator) store nothing on it
R11.8 overlapping candidate positions are resolved against the previous accepted instance, never by a mask over the gaps between
      neighbouring candidates (`hits[np.diff(hits) >= n]`), which loses instances of a self-overlapping residue signature
"""
from __future__ import annotations

import ast
import copy
from typing import Dict, List, Optional

from ..cfg import (CFG, call_name, calls_in, walk_no_nested, parents_map, guards_of, attr_chain, enum_paths,
                   const_int, branches, ctext, cconds, cguards_of)
from ..core import AnalysisError, Ctx, Func, norm
from ..effects import Effects
from ..util import branch_raises
from ..pat import find as pfind, has as phas, match as pmatch

SPEC = {
    "explanation": (
        "Necessary structural conditions of the recognition algorithm in components/_system.py.  R11.1 and "
        "R11.2 are dominance rules on System.add_molecule_top (post-dominance of the sort over the insertion; "
        "dominance of the three raising validations - signature lookup, run search, Molecule construction - over "
        "the first statement whose interprocedural effect summary writes the System).  R11.3 enumerates the "
        "paths of the scanner's loop body and checks the record/consume/advance discipline that makes instances "
        "disjoint and contiguous.  R11.4 is a sibling cross-check: the generator's (kind, start, end) triples "
        "telescope, and __iter__, both branches of __getitem__, __len__ and composition all read the same block "
        "list, with identical molecule-building expressions.  R11.5 covers the per-atom name comparison.  "
        "Correctness of the greedy matching for every interleaving of species is not decided."),
    "exhaustive": True,
    "trusted_base": ["more_itertools.islice_extended / last semantics (negative indices)", "list.sort is stable and total on ints"],
    "assumptions": ["species have distinct residue signatures (the property's precondition)"],
}


def run(ctx: Ctx):
    ctx.attempt("R11.1", lambda: r11_1_2(ctx))
    ctx.attempt("R11.3", lambda: r11_3(ctx))
    ctx.attempt("R11.4", lambda: r11_4(ctx))
    ctx.attempt("R11.5", lambda: r11_5(ctx))
    ctx.attempt("R11.6", lambda: r11_6(ctx))
    ctx.attempt("R11.7", lambda: r11_7(ctx))
    ctx.attempt("R11.8", lambda: r11_8(ctx))


def r11_7(ctx: Ctx, rule="R11.7"):
    """The views of a System (iteration, indexing, length, composition, the instance generator) are functions of the
    block list: they keep nothing on the System between calls.  A list of instances remembered on the object is not
    extended when a topology is added later, so iteration and length would disagree."""
    E = Effects(ctx.repo)
    n = 0
    for q in ("System.__iter__", "System.__getitem__", "System.__len__", "System.composition@get", "System._molecules_ordered_all_gen",
              "System.__str__", "System.__repr__"):
        f0 = ctx.repo.func(q, required=False)
        if f0 is None:
            continue
        for f in ctx.with_helpers(f0):
            n += 1
            # the System's own attributes (and what they hold): the coordinate file's read cursor is not a view of the System
            wr = [e for e in E.summary(f) if e.root[0] == "self" and e.kind in ("ATTR_STORE", "ITEM_STORE", "AUG_INPLACE", "MUT_CALL")
                  and ("System." in e.target.replace("SystemGro.", "") or "self._" in e.target or "self." in e.target)
                  and not e.target.startswith(("GroFile.", "SystemGro."))]
            # something remembered on the System: stale unless every mutator resets it.  If add_molecule_top writes the same
            # attribute the invalidation may be right; that is not decided here (reported only when nothing resets it)
            add_ = ctx.repo.func("System.add_molecule_top", required=False)
            reset = {e.target for e in E.summary(add_)} if add_ is not None else set()
            und = bool(wr) and all(e.target in reset for e in wr)
            if und:
                ctx.ob(rule, f, "effects of %s on the System: %s" % (f.name, sorted({e.target for e in wr})), True,
                       "a view of the System keeps state on it and add_molecule_top writes the same attribute(s); whether that "
                       "invalidation is complete is not decided on this tree", undecided=True, node=f.node)
                continue
            ctx.ob(rule, f, "effects of %s on the System: %s" % (f.name, sorted({e.target for e in wr})), not wr,
                   "reading a System (iteration, indexing, length, composition) stores nothing on it: every view is recomputed "
                   "from the block list, so a topology added later is seen by all of them"
                   + ("" if not wr else " -- " + wr[0].describe()), node=f.node)
    ctx.floor(rule, n, 4, "System accessors")


def _main_block(fn: ast.AST):
    """The statements that do the work: an early `return` for some special argument (structured by the loader into an
    enclosing `if not special:`) is peeled off, so the rules below look at the block that runs in the general case."""
    body = list(fn.body)
    outer = []
    while True:
        rest = [s_ for s_ in body if not (isinstance(s_, ast.Expr) and isinstance(s_.value, ast.Constant))]
        if len(rest) == 1 and isinstance(rest[0], ast.If):
            i_ = rest[0]
            only_ret = lambda blk: all(isinstance(x, (ast.Return, ast.Pass)) and getattr(x, "value", None) is None for x in blk)
            if not i_.orelse or only_ret(i_.orelse):
                outer.append(i_)
                body = list(i_.body)
                continue
            if only_ret(i_.body):
                outer.append(i_)
                body = list(i_.orelse)
                continue
        return body, outer


def r11_1_2(ctx: Ctx):
    f = ctx.func("System.add_molecule_top")
    E = Effects(ctx.repo)
    main_body, peeled = _main_block(f.node)
    cfg = CFG(f.node)
    dom = cfg.dominators()
    pdom = cfg.dominators(reverse=True, virtual_end=False)
    blocks = "self._molecules_ordered"
    # insertion = call whose summary writes the block list
    inserts, sorts = [], []
    for st in main_body:
        for node, g, binding, recv in E.calls(f):
            if any(node is x for x in ast.walk(st)):
                if any(e.root[0] == "self" and blocks.split(".")[1] in e.target and e.kind in ("MUT_CALL", "ITEM_STORE", "AUG_INPLACE")
                       for e in E.summary(g)) and st not in inserts:
                    inserts.append(st)
        for c in calls_in(st):
            if call_name(c) == "sort" and attr_chain(c.func.value) == blocks:
                key = [k.value for k in c.keywords if k.arg == "key"]
                by_start = bool(key) and isinstance(key[0], ast.Lambda) and norm(key[0].body) == "%s[1]" % key[0].args.args[0].arg
                sorts.append((st, by_start, not any(k.arg == "reverse" for k in c.keywords)))
        if isinstance(st, ast.Assign) and attr_chain(st.targets[0]) == blocks and isinstance(st.value, ast.Call) \
                and call_name(st.value) == "sorted":
            key = [k.value for k in st.value.keywords if k.arg == "key"]
            by_start = bool(key) and isinstance(key[0], ast.Lambda) and norm(key[0].body) == "%s[1]" % key[0].args.args[0].arg
            sorts.append((st, by_start, True))
    if inserts and not sorts:
        # the sort may live in the function that inserts: its last top-level statement, after every write of the block list
        in_callee = []
        for ins in inserts:
            for node, g, binding, recv in E.calls(f):
                if any(node is x for x in ast.walk(ins)) and g.cls is f.cls:
                    body_ = [s_ for s_ in g.node.body if not (isinstance(s_, ast.Expr) and isinstance(s_.value, ast.Constant))]
                    last_ = body_[-1] if body_ else None
                    is_sort = isinstance(last_, ast.Expr) and isinstance(last_.value, ast.Call) and call_name(last_.value) == "sort" \
                        and attr_chain(last_.value.func.value) == blocks
                    if is_sort:
                        key = [k.value for k in last_.value.keywords if k.arg == "key"]
                        by_start = bool(key) and isinstance(key[0], ast.Lambda) and norm(key[0].body) == "%s[1]" % key[0].args.args[0].arg
                        no_exit = not any(isinstance(x, ast.Return) for x in walk_no_nested(g.node))
                        in_callee.append(by_start and no_exit and not any(k.arg == "reverse" for k in last_.value.keywords))
                    elif any(e.root[0] == "self" and blocks.split(".")[1] in e.target for e in E.summary(g)):
                        in_callee.append(False)
        if in_callee and all(in_callee):
            ctx.ob("R11.1", f, inserts[0], True, "the function that inserts the blocks ends by sorting the block list by start offset "
                   "(no earlier exit)", node=inserts[0])
            sorts = None
    if sorts is None:
        ok = None
    else:
        ok = bool(inserts) and bool(sorts) and sorts[-1][1] and sorts[-1][2]
    # ... and unconditionally: "sort only when needed" tests are how blocks end up appended out of file order
    cond_sort = None
    pmf_ = parents_map(f.node)
    for c in calls_in(f.node):
        if call_name(c) in ("sort", "sorted") and ("_molecules_ordered" in norm(c)) and \
                [g_ for g_ in guards_of(c, pmf_) if not any(g_[0] is p_.test for p_ in peeled)]:
            cond_sort = c
    if ok and cond_sort is not None:
        ok = False
        ctx.ob("R11.1", f, cond_sort, False,
               "after every insertion of blocks the block list is sorted by start offset -- here only when `%s`: blocks inserted "
               "otherwise stay where they were appended" % norm(guards_of(cond_sort, pmf_)[0][0])[:80], node=cond_sort)
    if ok:
        sid = cfg.node_of(sorts[-1][0]).id
        ok = all(sid in pdom[cfg.node_of(i).id] and sorts[-1][0].lineno > i.lineno for i in inserts)
    if ok is not None:
        ctx.ob("R11.1", f, sorts[-1][0] if sorts else "sort of the block list", ok,
               "after every insertion of blocks the block list is sorted by start offset (so molecules come out in file "
               "order whatever the topology loading order)" + ("" if sorts else " -- no sort found"),
               node=sorts[-1][0] if sorts else f.node, insertion_sites=[norm(i)[:60] for i in inserts])
    # R11.2
    state_writes = []
    for st in main_body:
        w = False
        for e in E.direct(f):
            if e.line == st.lineno and e.root[0] == "self":
                w = True
        for node, g, binding, recv in E.calls(f):
            if any(node is x for x in ast.walk(st)):
                for e in E.summary(g):
                    if e.root[0] == "self" and recv not in (None, "fresh") and norm(recv) == "self":
                        w = True
                    if e.root[0] == "self" and recv is not None and recv != "fresh" and norm(recv).startswith("self.") \
                            and any(k in e.target for k in ("different_molecules", "_molecules_ordered", "_available")):
                        w = True
        if w:
            state_writes.append(st)
    validators = []
    for st in walk_no_nested(f.node):
        if isinstance(st, ast.Raise):
            validators.append(("raise", st))
    for c in calls_in(f.node):
        if call_name(c) in ("_check_index_in_available_mgro", "Molecule"):
            validators.append((call_name(c), c))
    okv = bool(state_writes) and len(validators) >= 3
    first = state_writes[0] if state_writes else None
    for kind, v in validators:
        nd = cfg.node_containing(v) if not isinstance(v, ast.stmt) else cfg.node_of(v)
        before = first is not None and v.lineno < first.lineno
        # the validator (or the test guarding the raise) must come before the first write on every path
        if kind == "raise":
            before = before and all(not any(w is x for x in ast.walk(f.node) if False) for w in state_writes)
        else:
            before = before and nd is not None and nd.id in dom[cfg.node_of(first).id]
        ctx.ob("R11.2", f, "%s: %s" % (kind, norm(v)[:80]), before,
               "this validation runs before the system's state is first written (a refused topology leaves the "
               "system unchanged)", node=v)
        okv = okv and before
    ctx.ob("R11.2", f, "first state write: %s" % (norm(first)[:80] if first is not None else None), okv,
           "signature lookup, run search and molecule construction all precede the first write", node=first or f.node,
           state_writes=[norm(s)[:60] for s in state_writes])
    ctx.floor("R11.2", len(validators), 3, "raising validations in add_molecule_top")
    # the validators themselves do not write the system
    for nm in ("System._check_index_in_available_mgro",):
        g = ctx.func(nm)
        es = [e for e in E.summary(g) if e.root[0] == "self"]
        ctx.ob("R11.2", g, "effects of %s on the system: %d" % (g.name, len(es)), not es,
               "the run search only reads", node=g.node)
    rs = [n for n in walk_no_nested(ctx.func("System._check_index_in_available_mgro").node) if isinstance(n, ast.Raise)]
    ctx.ob("R11.2", ctx.func("System._check_index_in_available_mgro"), rs[0] if rs else "raise", bool(rs),
           "a topology with no matching run is refused with an error", node=rs[0] if rs else None)


def r11_3(ctx: Ctx, rule="R11.3"):
    f = ctx.func("System._find_all_molecules_and_replace")
    loops = [n for n in walk_no_nested(f.node) if isinstance(n, ast.While)]
    if not loops:
        ctx.ob(rule, f, "scanner loop", True, "scanner is not a while loop; not decided", undecided=True)
        return
    l = loops[0]
    pattern, molidx, start = [p for p in f.params if p != "self"][:3]
    plen = None
    avail = None
    for s in f.node.body:
        if isinstance(s, ast.Assign) and norm(s.value) == "len(%s)" % pattern:
            plen = norm(s.targets[0])
        if isinstance(s, ast.Assign) and norm(s.value) == "self._available_mgro_ordered":
            avail = norm(s.targets[0])
    avail = avail or "self._available_mgro_ordered"
    plen = plen or "len(%s)" % pattern
    window = "%s[%s:%s + %s]" % (avail, start, start, plen)
    # the 'a new block starts here' flag: the boolean initialised to True before the loop
    nbs = [b_["V_nb"] for st_, b_ in pfind(f.node, "V_nb = True") if st_ in f.node.body]
    nbvar = nbs[0] if nbs else "new_block"
    t_ = norm(l.test).replace(" ", "")
    bound_forms = ("%s+%s<=len(%s)" % (start, plen, avail), "(%s+%s)<=len(%s)" % (start, plen, avail))
    if not nbs or t_ not in bound_forms:
        wrong_bound = t_.replace("<=", "<") in [b_.replace("<=", "<") for b_ in bound_forms] and t_ not in bound_forms
        if not wrong_bound:
            # another spelling of the scanner (other flag, other loop bound): this rule reads the reference spelling only
            ctx.ob(rule, f, l, True, "the scanner is not written with a `new block` flag initialised to True and the bound "
                   "`start + len(pattern) <= len(list)`; record/consume pairing not decided on this tree", undecided=True, node=l)
            _r11_3_rest(ctx, rule, f, molidx)
            return
    n = 0
    # the match test with its temporaries written out (`end = start + n` ... `list[start:end]`); a test on the pattern that is
    # still not the reference window is a spelling this rule does not read
    from ..pat import expand_single_defs as _xsd113
    EW = norm(_xsd113(f.node, ast.parse(window, mode="eval").body, skip=(pattern,)))      # the window with every temporary written out
    for n_ in walk_no_nested(l):
        if isinstance(n_, ast.If):
            tx_ = norm(_xsd113(f.node, n_.test, skip=(pattern,)))
            if ".all()" in tx_ and pattern in tx_ and EW not in tx_:
                ctx.ob(rule, f, n_, True, "the match test `%s` is not `(list[start:start + len(pattern)] == pattern).all()`; record/consume "
                       "pairing not decided on this tree" % norm(n_.test)[:80], undecided=True, node=n_)
                _r11_3_rest(ctx, rule, f, molidx)
                return
    for p in enum_paths(l.body):
        matched = None
        newblk_cond = None
        for t, o in p.conds():
            tt, neg = t, False
            while isinstance(tt, ast.UnaryOp) and isinstance(tt.op, ast.Not):
                tt, neg = tt.operand, not neg
            txt = norm(_xsd113(f.node, tt, skip=(pattern,))).replace(EW, window)
            if window in txt and pattern in txt and ".all()" in txt:
                eq = "==" in txt and "!=" not in txt
                matched = (o != neg) if eq else None
                if not eq:
                    ctx.ob(rule, f, t, False, "a run matches when every residue kind in the window equals the pattern "
                           "(`(window == pattern).all()`) -- the test is `%s`" % norm(t), node=t)
            if isinstance(tt, ast.Name) and tt.id == nbvar:
                newblk_cond = (o != neg)
        if matched is None:
            # a path that never evaluates the match test is a 'no instance here' path as well
            matched = False
        n += 1
        st = p.stmts()
        rec_new = [s for s in st if isinstance(s, ast.Expr) and isinstance(s.value, ast.Call) and call_name(s.value) == "append"
                   and attr_chain(s.value.func.value) == "self._molecules_ordered"]
        rec_inc = [s for s in st if isinstance(s, ast.AugAssign) and norm(s.target) == "self._molecules_ordered[-1][2]"
                   and const_int(s.value) == 1 and isinstance(s.op, ast.Add)]
        bad_inc = [s for s in st if isinstance(s, ast.AugAssign) and norm(s.target).startswith("self._molecules_ordered[") and s not in rec_inc]
        if bad_inc:
            ctx.ob(rule, f, bad_inc[0], False, "the count of the current block is incremented by one per instance -- `%s`" % norm(bad_inc[0]), node=bad_inc[0])
        consume = [s for s in st if isinstance(s, ast.Assign) and const_int(s.value) == -1
                   and (norm(s.targets[0]) == window or norm(_xsd113(f.node, s.targets[0], skip=(pattern,))) == EW)]
        adv = [s for s in st if isinstance(s, ast.AugAssign) and norm(s.target) == start and isinstance(s.op, ast.Add)]
        adv_by_assign = False
        # `start = end` with `end = start + len(pattern)` bound earlier in the same pass is the same advance
        for s in st:
            if isinstance(s, ast.Assign) and norm(s.targets[0]) == start and not adv:
                ex_ = norm(_xsd113(f.node, s.value, skip=(pattern,)))
                if ex_ in (norm(_xsd113(f.node, ast.parse("%s + %s" % (start, plen), mode="eval").body, skip=(pattern,))),):
                    adv = [s]
                    adv_by_assign = True
        if matched:
            ok = len(rec_new) + len(rec_inc) == 1 and len(consume) == 1 and len(adv) == 1 and (adv_by_assign or norm(adv[0].value) == plen)
            # a new block is opened exactly when the previous residue did not belong to a run of this species
            if newblk_cond is not None:
                ok = ok and ((newblk_cond and len(rec_new) == 1) or (not newblk_cond and len(rec_inc) == 1))
                if newblk_cond:
                    ok = ok and any(isinstance(s_, ast.Assign) and norm(s_.targets[0]) == nbvar and norm(s_.value) == "False" for s_ in st)
            if rec_new:
                a = rec_new[0].value.args[0]
                ok = ok and isinstance(a, (ast.List, ast.Tuple)) and [norm(e) for e in a.elts] == [molidx, start, "1"] \
                    and st.index(rec_new[0]) < st.index(adv[0]) if adv else False
            ctx.ob(rule, f, "match path: %s" % p.describe()[:200], ok,
                   "a matched run records exactly one instance (new block [kind, start, 1] or count + 1), marks the "
                   "run as consumed and advances by the pattern length", node=l,
                   records=len(rec_new) + len(rec_inc), consumes=len(consume), advance=[norm(a.value) for a in adv])
        else:
            ok = not rec_new and not rec_inc and not consume and len(adv) == 1 and const_int(adv[0].value) == 1
            newblk = any(isinstance(s, ast.Assign) and norm(s.targets[0]) == nbvar and norm(s.value) == "True" for s in st)
            ctx.ob(rule, f, "mismatch path: %s" % p.describe()[:200], ok and newblk,
                   "a mismatch records nothing, consumes nothing, advances by one and ends the current block", node=l)
    ctx.floor(rule, n, 3, "paths of the scanner loop body")
    # loop bound keeps the window inside the list
    t = norm(l.test).replace(" ", "")
    ctx.ob(rule, f, "while " + norm(l.test), t in ("%s+%s<=len(%s)" % (start, plen, avail), "(%s+%s)<=len(%s)" % (start, plen, avail)),
           "the window never runs past the end of the residue list", node=l)
    _r11_3_rest(ctx, rule, f, molidx)


def _r11_3_rest(ctx: Ctx, rule: str, f: Func, molidx: str):
    # the search starts at the first occurrence found by the validator
    add = ctx.func("System.add_molecule_top")
    top_p = [p_ for p_ in add.params if p_ != "self"][0]
    cs = pfind(add.node, "self.%s(E_pat, V_mi, V_si)" % f.name)
    okc = False
    okm = False
    if cs:
        b_ = cs[0][1]
        okc = phas(add.node, "%s = self._check_index_in_available_mgro(%s, %s)" % (b_["V_si"], b_["E_pat"], top_p))
        mi = pfind(add.node, "%s = len(self.different_molecules)" % b_["V_mi"])
        ap = pfind(add.node, "self.different_molecules.append(V_m)")
        okm = bool(mi) and bool(ap) and mi[0][0].lineno < ap[0][0].lineno < cs[0][0].lineno
    und_ = False
    if not cs:
        und_ = True
    elif not okc:
        # the start comes from another method of the class handed (pattern, topology): the validator under another name
        alt = pfind(add.node, "%s = self.V_meth(%s, %s)" % (cs[0][1]["V_si"], cs[0][1]["E_pat"], top_p)) if cs else []
        und_ = bool(alt)
    if und_:
        ctx.ob(rule, add, cs[0][0] if cs else "scanner call", True, "the call of the scanner (or the search that gives its start) is not "
               "written as in the reference tree; where the scan starts is not decided on this tree", undecided=True, node=cs[0][0] if cs else add.node)
    else:
        ctx.ob(rule, add, cs[0][0] if cs else "scanner call", okc,
               "the scan starts at the first matching run and labels instances with the index of the molecule just appended",
               node=cs[0][0] if cs else add.node)
    if not okm and cs and not pfind(add.node, "%s = len(self.different_molecules)" % cs[0][1]["V_mi"]) and \
            norm(ast.parse(cs[0][1]["V_mi"], mode="eval").body) not in ("len(self.different_molecules) - 1",) and not cs[0][1]["V_mi"].isidentifier():
        und_m = True
    else:
        und_m = not cs
    if und_m:
        ctx.ob(rule, add, "molecule index", True, "the kind index handed to the scanner is not a local bound to len(self.different_molecules) "
               "before the append; not decided on this tree", undecided=True, node=add.node)
    else:
        ctx.ob(rule, add, "molecule index", okm,
               "the kind index is the position the new molecule takes in different_molecules", node=add.node)


def r11_6(ctx: Ctx, rule="R11.6"):
    f = ctx.func("System._check_index_in_available_mgro")
    add = ctx.func("System.add_molecule_top")
    pat = [p_ for p_ in f.params if p_ != "self"][0]
    loops = [n_ for n_ in walk_no_nested(f.node) if isinstance(n_, ast.For) and "enumerate(self._available_mgro_ordered)" in norm(n_.iter)]
    ok = False
    why = "search loop not recognised"
    if loops and isinstance(loops[0].target, ast.Tuple):
        i, v = [norm(e) for e in loops[0].target.elts]
        L = [norm(s_.targets[0]) for s_ in f.node.body if isinstance(s_, ast.Assign) and norm(s_.value) == "len(%s)" % pat]
        Ln = L[0] if L else "len(%s)" % pat
        win = "self._available_mgro_ordered[%s:%s + %s]" % (i, i, Ln)
        assigns = [s_ for s_ in walk_no_nested(loops[0]) if isinstance(s_, ast.Assign) and norm(s_.value) == i]
        ret_form = False
        if not assigns:
            # the position is returned from inside the loop; falling out of the loop is the not-found case
            assigns = [s_ for s_ in walk_no_nested(loops[0]) if isinstance(s_, ast.Return) and s_.value is not None and norm(s_.value) == i]
            ret_form = bool(assigns)
        ok = bool(assigns)
        why = ""
        if ok:
            pmf = parents_map(f.node)
            gs = cguards_of(assigns[0], pmf, split=True)
            winc = win.replace(" ", "")
            full = [(t, pol) for t, pol in gs if winc in t]
            pre = [(t, pol) for t, pol in gs if winc not in t]
            ok = len(full) == 1 and full[0][1] and full[0][0] in ("(%s==%s).all()" % (winc, pat), "(%s==%s).all()" % (pat, winc)) \
                and all((t, pol) == ctext("%s == %s[0]" % (v, pat)) for t, pol in pre)
            blk = [s_ for s_ in walk_no_nested(loops[0]) if isinstance(s_, ast.Break)]
            ok = ok and (bool(blk) or ret_form)
            why = "guards of the hit: %s" % gs
    if not (loops and isinstance(loops[0].target, ast.Tuple)):
        ctx.ob(rule, f, "run search", True, "the run search is not a loop over enumerate(available kinds); not decided on this tree",
               undecided=True, node=f.node)
        rs_ = [n_ for n_ in walk_no_nested(f.node) if isinstance(n_, ast.Raise)]
        ctx.ob(rule, f, rs_[0] if rs_ else "not-found test", bool(rs_),
               "no matching run means the topology is refused (raise)", node=rs_[0] if rs_ else f.node)
        return _r11_6_rest(ctx, rule, add)
    ctx.ob(rule, f, loops[0] if loops else "run search", ok,
           "the run search returns the first position where the window of residue kinds equals the species' pattern"
           + ("" if ok else " -- " + why), node=loops[0] if loops else f.node)
    if ret_form:
        body = f.node.body
        after = body[body.index(loops[0]) + 1:] if loops[0] in body else []
        rets = [r_ for r_ in walk_no_nested(f.node) if isinstance(r_, ast.Return)]
        okn = bool(after) and branch_raises(after) and not loops[0].orelse and all(any(r_ is a_ for a_ in assigns) for r_ in rets)
        ctx.ob(rule, f, after[0] if after else "not-found exit", okn,
               "no matching run means the topology is refused (the statements after the search loop raise); the only value "
               "returned is the position found", node=after[0] if after else f.node)
        return _r11_6_rest(ctx, rule, add)
    hitvar = norm(assigns[0].targets[0]) if loops and isinstance(loops[0].target, ast.Tuple) and assigns else "start_index"
    nf = [n_ for n_ in walk_no_nested(f.node) if isinstance(n_, ast.If) and branches(n_)[0] == ctext("%s is None" % hitvar)[0]
          and branch_raises(branches(n_)[1] if ctext("%s is None" % hitvar)[1] else branches(n_)[2])]
    init_none = phas(f.node, "%s = None" % hitvar)
    rets = [r_ for r_ in walk_no_nested(f.node) if isinstance(r_, ast.Return)]
    ctx.ob(rule, f, nf[0] if nf else "not-found test", bool(nf) and init_none and bool(rets) and all(norm(r_.value) == hitvar for r_ in rets),
           "no matching run means the topology is refused (raise); otherwise the position found is returned", node=nf[0] if nf else f.node)
    _r11_6_rest(ctx, rule, add)


def _r11_6_rest(ctx: Ctx, rule: str, add: Func):
    # signature lookup and first-instance residues in add_molecule_top
    top_p = [p_ for p_ in add.params if p_ != "self"][0]
    sig = [n_ for n_ in walk_no_nested(add.node) if isinstance(n_, ast.If) and isinstance(n_.test, ast.Compare)
           and isinstance(n_.test.ops[0], ast.NotIn) and branch_raises(n_.body)]
    oksig = False
    if sig:
        table = norm(sig[0].test.comparators[0])
        oksig = phas(add.node, "%s = self.system_gro.molecules_resname_len_index" % table) or table == "self.system_gro.molecules_resname_len_index"
        lp_ = [a_ for a_ in walk_no_nested(add.node) if isinstance(a_, ast.For) and any(x is sig[0] for x in ast.walk(a_))]
        oksig = oksig and bool(lp_) and norm(lp_[0].iter) == "%s.resname_len_list" % top_p and norm(sig[0].test.left) == norm(lp_[0].target)
    if not sig:
        # the same check as one expression: `if any(x not in table for x in top.resname_len_list): raise`
        from ..pat import single_defs as _sd
        sd_ = _sd(add.node)
        for n_ in walk_no_nested(add.node):
            tst_ = n_.test if isinstance(n_, ast.If) else None
            neg_all = isinstance(tst_, ast.UnaryOp) and isinstance(tst_.op, ast.Not) and isinstance(tst_.operand, ast.Call) \
                and call_name(tst_.operand) == "all"
            if neg_all:
                tst_ = tst_.operand
            if isinstance(n_, ast.If) and branch_raises(n_.body) and isinstance(tst_, ast.Call) and call_name(tst_) in ("any", "all") \
                    and (call_name(tst_) == "all") == neg_all \
                    and len(tst_.args) == 1 and isinstance(tst_.args[0], (ast.GeneratorExp, ast.ListComp)):
                g_ = tst_.args[0]
                it_ = g_.generators[0].iter
                it_ = sd_.get(it_.id, it_) if isinstance(it_, ast.Name) else it_
                e_ = g_.elt
                if len(g_.generators) == 1 and not g_.generators[0].ifs and isinstance(e_, ast.Compare) \
                        and isinstance(e_.ops[0], ast.In if neg_all else ast.NotIn) \
                        and norm(e_.left) == norm(g_.generators[0].target) and norm(it_) == "%s.resname_len_list" % top_p:
                    tb_ = e_.comparators[0]
                    tb_ = sd_.get(tb_.id, tb_) if isinstance(tb_, ast.Name) else tb_
                    oksig = norm(tb_) == "self.system_gro.molecules_resname_len_index"
                    sig = [n_]
    ctx.ob(rule, add, sig[0] if sig else "signature lookup", oksig,
           "a residue signature (name, atom count) of the topology that does not occur in the coordinate file refuses the topology",
           node=sig[0] if sig else add.node)
    rs = pfind(add.node, "Molecule(%s, self.system_gro[V_si:V_si + len(E_pat)])" % top_p)
    okr = bool(rs) and phas(add.node, "%s = self._check_index_in_available_mgro(%s, %s)" % (rs[0][1]["V_si"], rs[0][1]["E_pat"], top_p))
    ctx.ob(rule, add, rs[0][0] if rs else "first instance", okr,
           "the species' template molecule is built from the residues of the first matching run and checked against the "
           "topology (Molecule(topology, residues))", node=rs[0][0] if rs else add.node)


def _telescopes(gen: Func, ctx: Ctx, rule: str):
    ys = [n for n in walk_no_nested(gen.node) if isinstance(n, ast.Yield)]
    ok = False
    detail = ""
    if len(ys) == 1 and isinstance(ys[0].value, ast.Tuple) and len(ys[0].value.elts) == 3:
        k, a, b = ys[0].value.elts
        pm = parents_map(gen.node)
        loops = [x for x in walk_no_nested(gen.node) if isinstance(x, ast.For) and any(ys[0] is y for y in ast.walk(x))]
        inner = loops[-1] if loops else None
        if inner is not None and isinstance(inner.iter, ast.Call) and call_name(inner.iter) == "range" and len(inner.iter.args) == 1:
            i = norm(inner.target)

            class Sub(ast.NodeTransformer):
                def visit_Name(self, node):
                    if node.id == i:
                        return ast.BinOp(ast.Name(i, ast.Load()), ast.Add(), ast.Constant(1))
                    return node
            a_next = norm(Sub().visit(copy.deepcopy(a)))
            outer = loops[0]
            cnt = norm(inner.iter.args[0])
            lens = pfind(gen.node, "V_n = len(self.different_molecules[%s].resnames)" % norm(outer.target.elts[0])) \
                if isinstance(outer.target, ast.Tuple) else []
            nvar = lens[0][1]["V_n"] if lens else "?"
            ok = norm(b) == a_next and isinstance(outer.target, ast.Tuple) and cnt == norm(outer.target.elts[2]) \
                and norm(a) == "%s + %s * %s" % (norm(outer.target.elts[1]), i, nvar)
            ok = ok and bool(lens) and norm(k) == norm(outer.target.elts[0]) and norm(outer.iter) == "self._molecules_ordered"
            detail = "start=%s end=%s start[i+1]=%s count=%s" % (norm(a), norm(b), a_next, cnt)
            if not ok and isinstance(a, ast.Name) and isinstance(b, ast.Name) and isinstance(outer.target, ast.Tuple) and lens:
                # running form: a = start before the loop; each pass: b = a + n; yield (kind, a, b); a = b
                body = inner.body
                yi = [j for j, s_ in enumerate(body) if any(ys[0] is y for y in ast.walk(s_))]
                pre = [s_ for s_ in body[:yi[0]]] if yi else []
                post = [s_ for s_ in body[yi[0] + 1:]] if yi else []
                ob = outer.body
                init = [s_ for s_ in ob[:ob.index(inner)] if isinstance(s_, ast.Assign) and norm(s_.targets[0]) == a.id] if inner in ob else []
                ok = bool(yi) and any(isinstance(s_, ast.Assign) and norm(s_.targets[0]) == b.id and norm(s_.value) in
                                      ("%s + %s" % (a.id, nvar), "%s + %s" % (nvar, a.id)) for s_ in pre) \
                    and len(post) == 1 and isinstance(post[0], ast.Assign) and norm(post[0].targets[0]) == a.id and norm(post[0].value) == b.id \
                    and len(init) == 1 and norm(init[0].value) == norm(outer.target.elts[1]) \
                    and cnt == norm(outer.target.elts[2]) and norm(k) == norm(outer.target.elts[0]) and norm(outer.iter) == "self._molecules_ordered" \
                    and not any(isinstance(x, (ast.Continue, ast.Break)) for x in ast.walk(inner))
                detail += " (running form)" if ok else ""
    if ok or detail or not ys:
        ctx.ob(rule, gen, ys[0] if ys else "generator", ok,
               "instance i of a block covers residues [start + i*n, start + (i+1)*n): consecutive, disjoint, as many as the "
               "block's count, n = number of residues of the species (%s)" % detail, node=ys[0] if ys else gen.node)
    else:
        ctx.ob(rule, gen, ys[0], True, "the instance offsets are not computed as start + i*n inside `for i in range(count)`; "
               "not decided on this tree", undecided=True, node=ys[0])


def r11_4(ctx: Ctx, rule="R11.4"):
    gen = ctx.func("System._molecules_ordered_all_gen")
    it = ctx.func("System.__iter__")
    gi = ctx.func("System.__getitem__")
    ln = ctx.func("System.__len__")
    comp = ctx.func("System.composition@get")
    _telescopes(gen, ctx, rule)
    # building sites
    sites = []
    scope = []
    for f0 in (it, gi):
        for f in ctx.with_helpers(f0):
            if f not in scope:
                scope.append(f)
    for f in scope:
        for s in walk_no_nested(f.node):
            if isinstance(s, (ast.Assign, ast.Return)) and isinstance(s.value, ast.Call) and call_name(s.value) == "copy" \
                    and "different_molecules" in norm(s.value.func):
                sites.append((f, s))
    shapes = []
    for f, s in sites:
        c = s.value
        idx = norm(c.func.value.slice) if isinstance(c.func.value, ast.Subscript) else None
        arg = c.args[0] if c.args else None
        from .exmap import _resolve_local
        res = _resolve_local(f.node, arg) if arg is not None else None
        sl = None
        if isinstance(res, ast.Subscript) and attr_chain(res.value) == "self.system_gro" and isinstance(res.slice, ast.Slice):
            sl = (norm(res.slice.lower), norm(res.slice.upper))
        # (idx, a, b) must be the generator's tuple, in order
        origin = None
        for t in walk_no_nested(f.node):
            tg = None
            if isinstance(t, ast.For) and isinstance(t.target, ast.Tuple):
                tg, src = t.target, t.iter
            elif isinstance(t, ast.Assign) and isinstance(t.targets[0], ast.Tuple):
                tg, src = t.targets[0], t.value
            if tg is not None and sl and [norm(e) for e in tg.elts] == [idx, sl[0], sl[1]]:
                origin = norm(src)
        shapes.append((f.name, idx, sl, origin))
        ctx.ob(rule, f, s, sl is not None and origin is not None,
               "a molecule is built as different_molecules[kind].copy(system_gro[start:end]) with (kind, start, end) "
               "taken, in that order, from the block generator", node=s, origin=origin)
    ctx.floor(rule, len(sites), 1, "molecule-building sites")
    gens = set()
    for f in (it, gi):
        for c in calls_in(f.node):
            if call_name(c) == gen.name:
                gens.add(f.name)
    ctx.ob(rule, gi, "accessors using the block generator: %s" % sorted(gens), gens == {"__iter__", "__getitem__"},
           "iteration and indexing enumerate instances with the same generator", node=gi.node)
    accessor_branches(ctx, rule, ("System.__getitem__", "SystemGro.__getitem__"))
    # counting accessors read the same block list
    okl = phas(ln.node, "return sum((V_e[2] for V_e in self._molecules_ordered))") or \
        phas(ln.node, "return sum((V_a for V_x, V_y, V_a in self._molecules_ordered))") or \
        phas(ln.node, "return sum([V_e[2] for V_e in self._molecules_ordered])")
    reads_blocks = any(attr_chain(x) == "self._molecules_ordered" for x in ast.walk(ln.node) if isinstance(x, ast.Attribute))
    if okl or not reads_blocks:
        ctx.ob(rule, ln, ln.node.body[-1], okl, "the length is the sum of the block counts", node=ln.node)
    else:
        ctx.ob(rule, ln, ln.node.body[-1], True, "the length reads the block list in a form that is not modelled; not decided on this tree",
               undecided=True, node=ln.node)
    lp_ = pfind(comp.node, "for V_i, V_u, V_a in self._molecules_ordered: ...")
    okc = bool(lp_) and phas(lp_[0][0], "V_c[self.different_molecules[%s].name] += %s" % (lp_[0][1]["V_i"], lp_[0][1]["V_a"]))
    reads_blocks_c = any(attr_chain(x) == "self._molecules_ordered" for x in ast.walk(comp.node) if isinstance(x, ast.Attribute))
    if okc or not reads_blocks_c:
        ctx.ob(rule, comp, "composition", okc, "the composition adds each block's count to its species", node=comp.node)
    else:
        ctx.ob(rule, comp, "composition", True, "the composition reads the block list in a form that is not modelled; not decided on this tree",
               undecided=True, node=comp.node)


def accessor_branches(ctx: Ctx, rule: str, names):
    # -1 / islice idiom in both containers
    for nm in names:
        g = ctx.func(nm)
        from ..pat import find as _pf, single_defs as _sd
        from .. import pat as _pat
        from ..cfg import cguards_of as _cg
        pm_ = parents_map(g.node)
        GEN = "self._molecules_ordered_all_gen()"
        sl_calls = _pf(g.node, "islice_extended(%s, index.start, index.stop, index.step)" % GEN)
        sl_guard = ctext("isinstance(index, slice)")
        ok_slice = bool(sl_calls) and sl_guard in _cg(sl_calls[0][0], pm_)

        def pick(src):
            want, wpol = ctext(src)
            for n_ in ast.walk(g.node):
                if isinstance(n_, ast.If):
                    ct, wt, wf = branches(n_)
                    if ct == want:
                        return (n_, wt, wf) if wpol else (n_, wf, wt)
            return None
        m1, it_ = pick("index == -1"), pick("isinstance(index, int)")

        def has_in(stmts, pattern):
            _pat._env.append(_sd(g.node))
            try:
                return any(_pf(s_, pattern) for s_ in stmts)
            finally:
                _pat._env.pop()
        ok_m1 = bool(m1) and has_in(m1[1], "last(%s)" % GEN) and has_in(m1[2], "next(islice_extended(%s, index, index + 1))" % GEN)
        int_branch = bool(it_ and m1 and any(x is m1[0] for x in ast.walk(ast.Module(it_[1], []))))
        if not int_branch and m1:
            # no explicit integer test around the -1 case: accepted when other index types are refused up front
            int_branch = any(isinstance(n_, ast.If) and branch_raises(n_.body) and "TypeError" in ast.unparse(n_)
                             and "isinstance(index" in norm(n_.test) for n_ in walk_no_nested(g.node)) \
                and sl_guard[0] in [c_[0] for c_ in _cg(m1[0], pm_)] + [ctext("isinstance(index, slice)")[0]]
        ok = ok_slice and ok_m1 and int_branch
        rebinds = [s_ for s_ in walk_no_nested(g.node) if (isinstance(s_, ast.AugAssign) and norm(s_.target) == "index")
                   or (isinstance(s_, ast.Assign) and any(norm(t_) == "index" for t_ in s_.targets))]
        for s_ in rebinds:
            by_len_self = norm(s_.value).replace(" ", "") in ("len(self)", "index+len(self)", "len(self)+index")
            ctx.ob(rule, g, s_, by_len_self, "the index selects the index-th instance of the generator: it is used as given (or normalised "
                   "by the number of instances, len(self))" + ("" if by_len_self else " -- `%s` shifts it by something else" % norm(s_)[:60]), node=s_)
        ctx.ob(rule, g, "%s: int / -1 / slice branches" % nm, ok,
               "integer indexing takes element [index, index+1) of the generator (the last one for -1, where that window "
               "would be empty) and slicing passes start/stop/step through", node=g.node)
        hs = [h for h in ast.walk(g.node) if isinstance(h, ast.ExceptHandler)]
        okh = any(norm(h.type) == "StopIteration" and branch_raises(h.body) and "IndexError" in ast.unparse(h) for h in hs)
        ctx.ob(rule, g, "%s: out of range" % nm, okh, "an index past the end raises IndexError", node=g.node)


def okc_count(cnt_) -> bool:
    return bool(cnt_)


def r11_5(ctx: Ctx, rule="R11.5"):
    chk = ctx.func("_molecule_top_and_residues_match")
    init = ctx.func("Molecule.__init__")
    cfg = CFG(init.node)
    dom = cfg.dominators()
    guards = [n for n in walk_no_nested(init.node) if isinstance(n, ast.If) and branch_raises(n.body)
              and any(call_name(c) == chk.name for c in calls_in(n.test))]
    stores = [s for s in walk_no_nested(init.node) if isinstance(s, (ast.Assign, ast.AnnAssign, ast.AugAssign))
              and "self." in norm(s.targets[0] if isinstance(s, ast.Assign) else s.target)]
    ok = bool(guards) and bool(stores) and all(cfg.node_of(guards[0]).id in dom[cfg.node_of(s).id] for s in stores)
    if ok:
        t = guards[0].test
        ok = isinstance(t, ast.UnaryOp) and isinstance(t.op, ast.Not)
        c = [c for c in calls_in(t)][0]
        ok = ok and [norm(a) for a in c.args] == [p for p in init.params if p != "self"][:2]
    ctx.ob(rule, init, guards[0] if guards else "name check", ok,
           "a molecule is built only after topology and residues were compared atom by atom (raise otherwise)",
           node=guards[0] if guards else init.node)
    # the comparison itself
    p_top, p_res = chk.params[:2]
    cnt_ = pfind(chk.node, "if len(%s) != sum((len(V_r) for V_r in %s)):\n    return False\nelse:\n    ..." % (p_top, p_res))
    outer = pfind(chk.node, "for V_res in %s: ..." % p_res)
    okc, inc_ok = bool(cnt_), False
    if outer:
        inner = pfind(outer[0][0], "for V_atom in %s: ..." % outer[0][1]["V_res"])
        if inner:
            av = inner[0][1]["V_atom"]
            tops = pfind(inner[0][0], "V_at = %s[V_idx]" % p_top)
            if tops:
                tv, iv = tops[0][1]["V_at"], tops[0][1]["V_idx"]
                cmp_ = pfind(inner[0][0], "if %s.resname != %s.resname or %s.name != %s.name:\n    return False\nelse:\n    ..." % (av, tv, av, tv))
                okc = okc and bool(cmp_)
                # on every path that goes on to the next atom the running index advances by one, as the last action
                from ..cfg import enum_paths as _ep
                falls = [p_ for p_ in _ep(inner[0][0].body) if p_.end in ("fall", "continue")]
                def _is_inc(s_):
                    return isinstance(s_, ast.AugAssign) and norm(s_.target) == iv and const_int(s_.value) == 1 and isinstance(s_.op, ast.Add)
                inc_ok = bool(falls) and all(len([s_ for s_ in p_.stmts() if _is_inc(s_)]) == 1 and _is_inc(p_.stmts()[-1]) for p_ in falls) \
                    and phas(chk.node, "%s = 0" % iv)
            else:
                okc = False
        else:
            okc = False
    else:
        okc = False
    # the verdict "they match" is given only after every residue has been walked
    early_true = [r_ for l_ in walk_no_nested(chk.node) if isinstance(l_, (ast.For, ast.While)) for r_ in ast.walk(l_)
                  if isinstance(r_, ast.Return) and isinstance(r_.value, ast.Constant) and r_.value.value is True]
    if early_true:
        ctx.ob(rule, chk, early_true[0], False, "every atom of every residue is compared before the answer is True -- `return True` inside "
               "the loop answers after the first residue (or atom)", node=early_true[0])
    if (okc and inc_ok) or outer:
        ctx.ob(rule, chk, "atom-by-atom comparison", okc and inc_ok,
               "atom counts must agree, and atom i of the concatenated residues must have the residue name and atom name "
               "of topology atom i (one running index over all residues)", node=chk.node)
    else:
        # other spelling (e.g. enumerate over the chained residues): recognised when both fields are compared against the
        # topology atom under the loop index, else not decided
        alt = False
        for l_ in [n_ for n_ in walk_no_nested(chk.node) if isinstance(n_, ast.For)]:
            if isinstance(l_.iter, ast.Call) and call_name(l_.iter) == "enumerate" and isinstance(l_.target, ast.Tuple) \
                    and norm(l_.iter.args[0]) in ("chain.from_iterable(%s)" % p_res, "itertools.chain.from_iterable(%s)" % p_res, "chain(*%s)" % p_res):
                iv, av = [norm(e) for e in l_.target.elts]
                from ..pat import single_defs as _sd
                tv = [k_ for k_, v_ in _sd(chk.node).items() if norm(v_) == "%s[%s]" % (p_top, iv)]
                tvn = tv[0] if tv else "%s[%s]" % (p_top, iv)
                alt = bool(pfind(l_, "if %s.resname != %s.resname or %s.name != %s.name:\n    return False\nelse:\n    ..." % (av, tvn, av, tvn))) \
                    or bool(pfind(l_, "if %s.resname != %s.resname or %s.name != %s.name:\n    return False" % (av, tvn, av, tvn)))
        if alt and okc_count(cnt_):
            ctx.ob(rule, chk, "atom-by-atom comparison (enumerate over the chained residues)", True,
                   "atom counts must agree, and atom i of the concatenated residues must have the residue name and atom name "
                   "of topology atom i (one running index over all residues)", node=chk.node)
        else:
            ctx.ob(rule, chk, "atom-by-atom comparison", True, "the comparison is not written as nested loops with a running index; "
                   "not decided on this tree", undecided=True, node=chk.node)


# ----------------------------------------------------------------------------------------------------------------
# R11.8  overlapping fits are resolved greedily, not pairwise

def pairwise_overlap_filters(fn: ast.AST):
    """`H[mask]` (or np.delete / np.compress over H) where the mask compares `np.diff(H)` (or `H[1:] - H[:-1]`) with a
    length: every candidate position is kept or dropped by its gap to the previous *candidate*.  The scan the property
    describes drops a candidate that overlaps the previous *accepted* instance; on a run of three or more mutually
    overlapping candidates (a species whose residue signature repeats) the two differ: positions 0,1,2,3 with length 2
    give {0} pairwise and {0, 2} greedily."""
    def diff_of(e):
        if isinstance(e, ast.Call) and call_name(e) in ("diff", "ediff1d") and e.args and isinstance(e.args[0], ast.Name):
            return e.args[0].id
        if isinstance(e, ast.BinOp) and isinstance(e.op, ast.Sub) and isinstance(e.left, ast.Subscript) and isinstance(e.right, ast.Subscript) \
                and isinstance(e.left.value, ast.Name) and isinstance(e.right.value, ast.Name) and e.left.value.id == e.right.value.id \
                and norm(e.left.slice) == "1:" and norm(e.right.slice) == ":-1":
            return e.left.value.id
        return None

    def gap_tests(e):
        out = set()
        for c in ast.walk(e):
            if isinstance(c, ast.Compare) and len(c.ops) == 1 and isinstance(c.ops[0], (ast.GtE, ast.Gt, ast.Lt, ast.LtE)):
                for side in (c.left, c.comparators[0]):
                    h = diff_of(side)
                    if h:
                        out.add(h)
        return out
    masks: Dict[str, Set[str]] = {}
    for _ in range(3):
        for s in walk_no_nested(fn):
            if not isinstance(s, ast.Assign) or len(s.targets) != 1:
                continue
            t = s.targets[0]
            base = t.id if isinstance(t, ast.Name) else (t.value.id if isinstance(t, ast.Subscript) and isinstance(t.value, ast.Name) else None)
            if base is None:
                continue
            hs = gap_tests(s.value)
            for n in ast.walk(s.value):
                if isinstance(n, ast.Name) and n.id in masks:
                    hs |= masks[n.id]
            if hs:
                masks.setdefault(base, set()).update(hs)
    hits = []
    for n in walk_no_nested(fn):
        h = sel = None
        if isinstance(n, ast.Subscript) and isinstance(n.ctx, ast.Load) and isinstance(n.value, ast.Name):
            h, sel = n.value.id, n.slice
        elif isinstance(n, ast.Call) and call_name(n) in ("delete", "compress", "extract") and len(n.args) >= 2:
            a, b = n.args[0], n.args[1]
            if call_name(n) == "delete" and isinstance(a, ast.Name):
                h, sel = a.id, b
            elif isinstance(b, ast.Name):
                h, sel = b.id, a
        if h is None:
            continue
        hs = gap_tests(sel)
        for m in ast.walk(sel):
            if isinstance(m, ast.Name) and m.id in masks:
                hs |= masks[m.id]
        if h in hs:
            hits.append(n)
    return hits


def r11_8(ctx: Ctx, rule="R11.8"):
    from ..fixtures import check_fixture
    check_fixture(ctx, rule, "pairwise.py", lambda repo: sum(len(pairwise_overlap_filters(f_.node)) for f_ in repo.funcs.values()), expect_exact=3)
    cls = ctx.repo.cls("System")
    n = 0
    for f in cls.methods.values():
        if not any(isinstance(x, ast.Attribute) and attr_chain(x) in ("self._available_mgro_ordered", "self._molecules_ordered")
                   for x in ast.walk(f.node)):
            continue
        n += 1
        ctx.seen(f)
        hits = pairwise_overlap_filters(f.node)
        if hits:
            ctx.ob(rule, f, hits[0], False,
                   "a candidate position that overlaps the previous *accepted* instance is skipped (the scan advances by the "
                   "molecule's length after a match) -- `%s` keeps or drops every candidate by its gap to the previous *candidate*: on "
                   "three or more mutually overlapping candidates (a residue signature that repeats) later instances are lost"
                   % norm(hits[0])[:80], node=hits[0])
        else:
            ctx.ob(rule, f, "candidate filters", True, "no list of candidate positions is filtered by the gaps between "
                   "neighbouring candidates", node=f.node)
    ctx.floor(rule, n, 2, "methods of System reading the residue table / block list")
