"""C17 - rotation matrices are proper rotations; local frames are orthonormal.

Frames (calcule_base, every path):
  R1.1  three unit, pairwise perpendicular vectors by construction (Vec domain)
  R17.1 right-handed: one vector is the cross product of the other two in cyclic order
  R17.2 first vector = unit(third point - first point); origin = first point; third vector normal to the plane
  R17.3 inputs not modified (in-place operators only on freshly allocated arrays)
Rotation matrix (closed form folded to a polynomial matrix in n0,n1,n2,cos,sin):
  R17.4 the axis enters only through its normalisation (length independence)
  R17.5 the skew generator is antisymmetric and holds the three normalised components
  R17.6 R(-t) = R(t)^T   R17.7 trace = 1 + 2cos   R17.8 R n = n, K n = 0
  R17.9 R R^T = I, det R = 1, R(a)R(b) = R(a+b)   (polynomial identities modulo n.n = 1, cos^2+sin^2 = 1)
"""
from ..core import Ctx
from . import frames, rotmat

SPEC = {
    "explanation": (
        "Two abstract interpretations of gaddlemaps/_auxilliary.py.  (1) calcule_base is interpreted on "
        "each of its structural paths in a vector type system: point differences are equivariant vectors, "
        "v/|v| (several accepted idioms) is a unit vector, cross(a, b) is perpendicular to a and b and is a "
        "unit vector when a, b are perpendicular unit vectors, literal arrays built from components of "
        "another vector carry component polynomials so that their squared norm and dot products are decided "
        "by polynomial normalisation (a mis-normalised vector is refuted, not merely unproven).  This covers "
        "the exactly collinear path, which no sampled geometry reaches.  (2) rotation_matrix is folded "
        "(np.eye, np.outer of the normalised axis, the 3x3 literal, cos/sin of the angle, +, -, scalar*matrix) "
        "into a matrix of polynomials; orthogonality, determinant, fixed axis, trace, transpose/negation and "
        "the composition law are decided exactly by reducing polynomial identities modulo n.n = 1 and "
        "cos^2 + sin^2 = 1 (the two relations have coprime leading terms, so the rewriting is confluent).  "
        "If a later tree uses another closed form that does not fold, the algebraic clauses are reported as "
        "not decided instead of as violations.  Floating-point tolerances are not decided."),
    "exhaustive": True,
    "trusted_base": ["numpy: np.cross, np.outer, np.eye, np.linalg.norm, np.cos, np.sin have their mathematical meaning",
                     "cos is even, sin is odd; angle-addition formulas",
                     "polynomial rewriting modulo {n2^2 -> 1-n0^2-n1^2, S^2 -> 1-C^2} is a normal form (Groebner basis)"],
    "assumptions": ["exact arithmetic; divisors (norms) are non-zero: first and third point distinct, axis non-zero"],
}


def run(ctx: Ctx):
    ctx.attempt("R1.1", lambda: frames.orthonormal(ctx, "R1.1"))
    ctx.attempt("R17.1", lambda: frames.right_handed_and_anchored(ctx, "R17.1", "R17.2"))
    ctx.attempt("R17.3", lambda: frames.inputs_untouched(ctx, "R17.3"))
    ctx.attempt("R17.6", lambda: frames.exact_degeneracy_test(ctx, "R17.6"))
    ctx.attempt("R17.4", lambda: rotmat.rules(ctx))
    from ..util import persistent_state
    ctx.attempt("R17.7", lambda: persistent_state(ctx, "R17.7", [f_ for f_ in (ctx.repo.func(q_, required=False) for q_ in ('calcule_base', 'rotation_matrix')) if f_ is not None], "building a frame or a rotation matrix"))
