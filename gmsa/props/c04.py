"""C04 - applying an exchange map is pure, history-independent and species-checked.

R4.1 the only map state written on the call path is the frame table; projections, equivalences, scale and the
     construction molecules are written only from __init__
R4.2 no stale read: every read of the frame table on the call path happens after this call's recomputation
R4.3 reject before touch: both TypeError guards dominate the first statement with any write effect
R4.4 coordinates of the argument / of the construction molecules are untouched: every write effect on the call
     path lands on the frame table or on objects allocated during the call
R4.5 result identity: a fresh copy of the target whose every atom position is overwritten unconditionally and
     whose residue numbers are taken from the argument on every path to the return
R4.6 Molecule.copy allocates fresh coordinate storage (the freshness chain of C18/R18.1)
R4.3 (path form) on every path of __call__ both tests have passed before the first effectful statement; every failing path ends in raise TypeError (error flags read through)
"""
from __future__ import annotations

import ast
from typing import List, Set

from ..cfg import (CFG, call_name, calls_in, walk_no_nested, parents_map, guards_of, attr_chain, enum_paths)
from ..core import AnalysisError, Ctx, Func, norm
from ..effects import Effects
from ..util import branch_raises
from . import exmap, c18

SPEC = {
    "explanation": (
        "History independence is an effect statement: the interprocedural write-effect summary of "
        "ExchangeMap.__call__ (effects of callees substituted through argument/receiver provenance, depth "
        "bound 6, deepest chain printed) contains exactly the frame-table item stores on the receiver and "
        "nothing on the argument, on the construction molecules or on global state (R4.1/R4.4); every entry "
        "of the frame table that is read during the call was rewritten earlier in the same call (R4.2, with "
        "C02/R2.1), so no value computed for an earlier argument can reach the result.  The species/type "
        "guards dominate the first effectful statement (R4.3), so a rejected argument leaves the map as it "
        "was.  The result is the fresh copy of the target (R4.5/R4.6): every atom's position is overwritten "
        "in a loop body without conditional exits, hence no construction-time coordinate survives and later "
        "mutation of the construction molecules' coordinates cannot matter.  Molecule.copy shares the "
        "topology with the target by design; writing the argument's residue numbers also writes the shared "
        "topology atoms' resid (documented, listed in the evidence; coordinates, names and the coordinate-"
        "side residue numbers are unaffected).  Bitwise equality across calls additionally relies on numpy "
        "being deterministic."),
    "exhaustive": True,
    "trusted_base": ["effect summaries of numpy/scipy calls (allocate, do not write their arguments)",
                     "Molecule equality compares name, atom names, indices (species check)"],
    "assumptions": ["exact same-species arguments pass the equality guard; mutation of the construction molecules is "
                    "limited to coordinates (names/topology of the target are shared by reference)"],
}


def run(ctx: Ctx):
    em = exmap.EM(ctx)
    E = Effects(ctx.repo)
    path = em.call_path()
    frames_key = em.frames_attr            # 'self._refsystems'
    summ = E.summary(em.call)
    ctx.extra["effect_summary_depth_bound"] = E.depth
    ctx.extra["deepest_call_chain_followed"] = max([len(e.via) for e in summ] + [0])
    ctx.extra["call_resolution"] = dict(E.R.stats) if E.R.stats["calls"] else None
    ctx.extra["effects_of___call__"] = [e.describe() for e in summ if e.root[0] != "fresh"]
    # every entry of the frame table is rewritten from the argument on every call (shared with C01-C03): a frame kept
    # from an earlier call under some condition makes the result depend on the call history
    ctx.attempt("R4.2", lambda: exmap.table_entries(ctx, "R4.2"))

    # ------------------------------------------------------------------ R4.1
    state_attrs = ["_equivalences", "_target_coordinates", "scale_factor", "_refmolecule", "_targetmolecule"]
    self_effects = [e for e in summ if e.root[0] == "self"]
    bad = []
    for e in self_effects:
        if e.kind == "ITEM_STORE" and e.target == "item of %s" % frames_key:
            continue
        if e.kind == "MUT_CALL" and e.target in ("update() on %s" % frames_key,):
            continue                      # entries written in bulk: still the frame table and nothing else
        # a write matters for later calls only if the written attribute is read on the call path
        # (or is construction-time state); a write-only attribute cannot influence a result
        attr = e.target.split(".")[-1].split(" ")[-1].split("[")[0]
        read_on_path = any(isinstance(n, ast.Attribute) and isinstance(n.ctx, ast.Load) and n.attr == attr
                           and norm(n.value) == "self" for g in path for n in ast.walk(g.node))
        owner = e.target.split(".")[0]
        if read_on_path or attr in state_attrs or owner not in ("ExchangeMap", "item of self", "?"):
            bad.append(e)
        else:
            ctx.note("write-only attribute on the call path (harmless): %s" % e.describe())
    ctx.attempt("R4.1", lambda: ctx.ob("R4.1", em.call, "receiver state written during a call: %s" % sorted({e.target for e in self_effects}), not bad,
           "the only map state a call writes is the per-anchor frame table"
           + ("" if not bad else " -- also: %s" % bad[0].describe()), node=em.call.node))


    n_cls = 0
    init_only = [f for f in em.cls.methods.values() if f not in path]
    for a in state_attrs:
        writers = []
        for f in em.cls.methods.values():
            for e in E.direct(f):
                if e.root[0] == "self" and (e.target.endswith("." + a) or e.target == "item of self.%s" % a
                                            or ("on self.%s" % a) in e.target):
                    writers.append(f)
        on_path = sorted({w.name for w in writers if w in path})
        n_cls += 1
        ctx.ob("R4.1", em.init, "writers of %s: %s" % (a, sorted({w.name for w in writers})), bool(writers) and not on_path,
               "construction-time state (%s) is written only by methods that __call__ cannot reach" % a
               + ("" if not on_path else " -- written on the call path by %s" % on_path), node=em.init.node)
    ctx.floor("R4.1", n_cls, 5, "state attributes classified")

    # ------------------------------------------------------------------ R4.2
    f = em.call
    cfg = CFG(f.node)
    dom = cfg.dominators()
    rc = [c for c in calls_in(f.node) if call_name(c) == em.recompute.name]
    rc_node = cfg.node_containing(rc[0]) if rc else None
    readers: Set[str] = set()
    for g in path:
        for n in ast.walk(g.node):
            if isinstance(n, ast.Subscript) and isinstance(n.ctx, ast.Load) and attr_chain(n.value) == frames_key:
                readers.add(g.name)
            if isinstance(n, (ast.For, ast.comprehension)) and attr_chain(n.iter) == frames_key:
                readers.add(g.name)
            # reads through the mapping API: .get / .items / .values / .setdefault / .pop / .copy, `key in table`
            if isinstance(n, ast.Call) and isinstance(n.func, ast.Attribute) and attr_chain(n.func.value) == frames_key \
                    and n.func.attr in ("get", "items", "values", "setdefault", "pop", "copy", "keys", "__getitem__"):
                readers.add(g.name)
            if isinstance(n, ast.Compare) and any(isinstance(o, (ast.In, ast.NotIn)) for o in n.ops) \
                    and any(attr_chain(c_) == frames_key for c_ in n.comparators):
                readers.add(g.name)
    # which call sites in __call__ reach a reader
    def reaches(fn: Func, seen=None) -> bool:
        seen = seen or set()
        if fn.name in readers:
            return True
        seen.add(fn.name)
        for c in calls_in(fn.node):
            if isinstance(c.func, ast.Attribute) and norm(c.func.value) == "self" and c.func.attr in em.cls.methods \
                    and c.func.attr not in seen:
                if reaches(em.cls.methods[c.func.attr], seen):
                    return True
        return False
    n_sites = 0
    for c in calls_in(f.node):
        if isinstance(c.func, ast.Attribute) and norm(c.func.value) == "self" and c.func.attr in em.cls.methods:
            g = em.cls.methods[c.func.attr]
            if g is em.recompute:
                continue
            if reaches(g):
                n_sites += 1
                nd = cfg.node_containing(c)
                ok = rc_node is not None and rc_node.id in dom[nd.id] and nd.id != rc_node.id
                ctx.ob("R4.2", f, c, ok, "frames read by `%s` were recomputed earlier in this call" % norm(c)
                       + ("" if ok else " -- the read is not dominated by the recomputation"), node=c)
    direct_reads = [n for n in ast.walk(f.node) if isinstance(n, ast.Subscript) and attr_chain(n.value) == frames_key
                    and isinstance(n.ctx, ast.Load)]
    for n in direct_reads:
        nd = cfg.node_containing(n)
        ok = rc_node is not None and nd is not None and rc_node.id in dom[nd.id]
        ctx.ob("R4.2", f, n, ok, "direct read of the frame table happens after the recomputation", node=n)
        n_sites += 1
    # R4.2b: the keys read during restoration (anchors fixed at construction) are all rewritten by this call's
    # recomputation (anchors of the ARGUMENT) only if the argument has the construction reference's bond structure.
    # Either the species guard compares bonds, or the table is emptied before it is refilled (a missing key then
    # fails loudly instead of silently using the frame of an earlier argument).
    eq_m = ctx.repo.func("Molecule.__eq__", required=False)
    eq_a = ctx.repo.func("Atom.__eq__", required=False)
    compares_bonds = any(g_ is not None and any(isinstance(n_, ast.Attribute) and n_.attr == "bonds" for n_ in ast.walk(g_.node))
                         for g_ in (eq_m, eq_a))
    clears = False
    for g_ in (em.call, em.recompute):
        for st in walk_no_nested(g_.node):
            if isinstance(st, ast.Expr) and isinstance(st.value, ast.Call) and call_name(st.value) == "clear" \
                    and attr_chain(st.value.func.value) == frames_key:
                clears = True
            if isinstance(st, ast.Assign) and attr_chain(st.targets[0]) == frames_key and g_ is not em.init:
                clears = True
    ctx.attempt("R4.2", lambda: ctx.ob("R4.2", em.recompute, "frame keys read = construction anchors; keys rewritten = anchors of the argument", compares_bonds or clears,
           "every frame read during a call was rewritten during that call: the species check must guarantee the argument "
           "has the same bonded structure (so the same anchors), or the table must be emptied before it is refilled"
           + ("" if compares_bonds or clears else " -- neither: a molecule with the same names but fewer bonds passes the check, "
              "some anchors are not recomputed and the frames of the PREVIOUS argument are used for them"),
           node=em.recompute.node, species_check_compares_bonds=compares_bonds, table_cleared_per_call=clears))





    # the recomputation itself does not read the table
    rr = [g.name for g in (em.recompute, em.recompute_general) if g.name in readers]
    ctx.attempt("R4.2", lambda: ctx.ob("R4.2", em.recompute, "frame-table readers on the call path: %s" % sorted(readers), not rr,
           "the recomputation writes the table without reading earlier entries", node=em.recompute.node))

    ctx.floor("R4.2", n_sites, 1, "frame-table read sites reached from __call__")

    # ------------------------------------------------------------------ R4.3
    # path form: on every path through __call__ the first statement with a write effect is preceded by both tests
    # having come out "is a Molecule" / "equals the construction reference"; every path on which one of them fails
    # ends in `raise TypeError` with nothing written.  Single-exit error flags are read through (cfg.resolve_flags).
    from ..cfg import resolve_flags, conjuncts
    param = [p for p in f.params if p != "self"][0]
    effectful = []
    for st in walk_no_nested(f.node):
        if not isinstance(st, ast.stmt) or isinstance(st, (ast.If, ast.FunctionDef, ast.Raise)):
            continue
        eff = False
        for node, g, binding, recv in E.calls(f):
            if any(node is x for x in ast.walk(st)) or node is st:
                if any(e.root[0] in ("self", "param", "global", "unknown") for e in E.summary(g)):
                    eff = True
        if any(e.line == st.lineno for e in E.direct(f)):
            eff = True
        if eff:
            effectful.append(st)
    eff_ids = {id(s_) for s_ in effectful}
    lit_type = "isinstance(%s,Molecule)" % param
    lit_species = "%s==%s" % tuple(sorted(["self._refmolecule", param]))
    kinds = set()
    bad_paths, n_paths, undec = [], 0, None
    try:
        paths = resolve_flags(enum_paths(f.node.body))
    except AnalysisError as e:
        paths, undec = [], str(e)
    for pth in paths:
        n_paths += 1
        seen = {}
        verdict = None
        for ev in pth.events:
            if ev[0] == "c":
                for txt, pol in conjuncts(ev[1], ev[2]):
                    if txt in (lit_type, lit_species):
                        seen.setdefault(txt, pol)
                        kinds.add("type" if txt == lit_type else "species")
            elif ev[0] == "s" and id(ev[1]) in eff_ids:
                if seen.get(lit_type) is not True or seen.get(lit_species) is not True:
                    verdict = "`%s` runs before both tests have passed" % norm(ev[1])[:60]
                break
            elif ev[0] in ("loop0", "loop1", "exc") and any(id(x) in eff_ids for x in ast.walk(ev[1])):
                if seen.get(lit_type) is not True or seen.get(lit_species) is not True:
                    verdict = "a loop with effects runs before both tests have passed"
                break
        failed = [t for t in (lit_type, lit_species) if seen.get(t) is False]
        if verdict is None and failed:
            if pth.end != "raise" or "TypeError" not in norm(pth.end_node):
                verdict = "the path on which `%s` is false does not end in raise TypeError (%s)" % (failed[0], pth.end)
        if verdict:
            bad_paths.append(verdict)
    guards = [n for n in walk_no_nested(f.node) if isinstance(n, ast.Raise) and "TypeError" in norm(n)]
    ok = kinds == {"type", "species"} and bool(effectful) and not bad_paths
    ctx.attempt("R4.3", lambda: ctx.ob("R4.3", f, "tests %s before effectful statements %s on %d paths" % (sorted(kinds), [norm(s)[:50] for s in effectful], n_paths),
           ok, "a non-molecule or a molecule of another species is rejected with TypeError before anything is written"
           + ("" if ok else " -- %s" % (bad_paths[0] if bad_paths else "tests found: %s" % sorted(kinds))),
           node=guards[0] if guards else f.node, guard_kinds=sorted(kinds), undecided=undec))



    ctx.floor("R4.3", len(guards), 1, "raise TypeError sites")
    # the guards themselves are effect-free (equality only reads)
    eq = ctx.repo.func("Molecule.__eq__", required=False)
    if eq is not None:
        es = [e for e in E.summary(eq) if e.root[0] in ("self", "param", "global")]
        ctx.ob("R4.3", eq, "effects of Molecule.__eq__: %d" % len(es), not es,
               "the species comparison does not modify either molecule", node=eq.node)

    # the species comparison itself, as a decision table: Molecule.__eq__ must answer True exactly when the argument
    # is a Molecule AND has the same name AND the same number of atoms AND all atoms compare equal pairwise
    if eq is not None:
        other = [p_ for p_ in eq.params if p_ != "self"][0]

        def atom_of(e):
            """Atomic predicate of a test expression: ('cls'|'name'|'len'|'atoms', polarity) or None."""
            t = norm(e).replace(" ", "")
            if t == "isinstance(%s,Molecule)" % other:
                return ("cls", True)
            if isinstance(e, ast.Compare) and len(e.ops) == 1:
                sides = {norm(e.left).replace(" ", ""), norm(e.comparators[0]).replace(" ", "")}
                eqop = isinstance(e.ops[0], ast.Eq)
                neop = isinstance(e.ops[0], ast.NotEq)
                if eqop or neop:
                    if sides == {"%s.name" % other, "self.name"}:
                        return ("name", eqop)
                    if sides == {"len(%s)" % other, "len(self)"}:
                        return ("len", eqop)
                    if all(isinstance(x, ast.Name) for x in (e.left, e.comparators[0])):
                        return ("atoms", eqop)       # at1 == at2 inside the pairwise loop
            if isinstance(e, ast.Call) and call_name(e) == "all" and e.args and isinstance(e.args[0], (ast.GeneratorExp, ast.ListComp)):
                g0 = e.args[0]
                it = norm(g0.generators[0].iter).replace(" ", "")
                if it in ("zip(self,%s)" % other, "zip(%s,self)" % other) and isinstance(g0.elt, ast.Compare) \
                        and isinstance(g0.elt.ops[0], ast.Eq):
                    return ("atoms", True)
            return None

        def ev(e, asg):
            """Truth value of a test under an assignment of the atomic predicates (None: unknown)."""
            if isinstance(e, ast.UnaryOp) and isinstance(e.op, ast.Not):
                v = ev(e.operand, asg)
                return None if v is None else (not v)
            if isinstance(e, ast.BoolOp):
                vs = []
                for x in e.values:
                    v = ev(x, asg)
                    # short circuit like Python does
                    if isinstance(e.op, ast.And) and v is False:
                        return False
                    if isinstance(e.op, ast.Or) and v is True:
                        return True
                    vs.append(v)
                if None in vs:
                    return None
                return all(vs) if isinstance(e.op, ast.And) else any(vs)
            a = atom_of(e)
            if a is None:
                if isinstance(e, ast.Constant):
                    return bool(e.value)
                return None
            return asg[a[0]] == a[1]
        import itertools
        table_bad = []
        decided = 0
        for cls_, name_, len_, atoms_ in itertools.product([True, False], repeat=4):
            asg = {"cls": cls_, "name": name_, "len": len_, "atoms": atoms_}
            want = cls_ and name_ and len_ and atoms_
            got = None
            for p_ in enum_paths(eq.node.body):
                if p_.end != "return":
                    continue
                feasible = True
                for t_, o_ in p_.conds():
                    v = ev(t_, asg)
                    if v is None:
                        feasible = None
                        break
                    if v != o_:
                        feasible = False
                        break
                # the pairwise loop runs at least once for non-empty molecules: skipping it (loop0) is the path of an empty
                # molecule; taking it with the inner test false is the 'all equal so far' path
                if feasible is False:
                    continue
                if any(e_[0] == "loop0" for e_ in p_.events) and any(e_[0] == "loop1" for e_ in p_.events) is False and not atoms_:
                    continue       # unequal atoms need at least one iteration
                if feasible is None:
                    got = None
                    break
                rv = p_.end_node.value
                val = ev(rv, asg) if rv is not None else False
                if isinstance(rv, ast.Name):
                    val = None
                if got is None:
                    got = val
                elif val is not None and got != val:
                    # two feasible paths with different answers (loop unrolling): the falsifying one wins for 'atoms unequal'
                    got = got and val
            if got is None:
                continue
            decided += 1
            if bool(got) != want:
                table_bad.append((asg, bool(got)))
        if decided < 8:
            ctx.ob("R4.3", eq, "Molecule.__eq__ decision table", True, "the comparison is not written with the recognised atomic "
                   "tests (class, name, length, pairwise atoms); not decided on this tree", undecided=True, node=eq.node)
        else:
            ctx.ob("R4.3", eq, "Molecule.__eq__ decision table (%d of 16 rows decided)" % decided, not table_bad,
                   "two molecules are the same species exactly when the argument is a Molecule with the same name, the same "
                   "number of atoms and pairwise equal atoms"
                   + ("" if not table_bad else " -- wrong answer %s for %s" % (table_bad[0][1], table_bad[0][0])), node=eq.node)
        aeq = ctx.repo.func("Atom.__eq__", required=False)
        if aeq is not None:
            at = ast.unparse(aeq.node)
            need = ["resname", "name", "index", "top_resid"]
            miss2 = [a_ for a_ in need if "self.%s == " % a_ not in at and "== self.%s" % a_ not in at]
            ctx.ob("R4.3", aeq, "Atom.__eq__ compares %s" % need, not miss2,
                   "atoms are equal when residue name, atom name, index and topology residue number agree"
                   + ("" if not miss2 else " -- not compared: %s" % miss2), node=aeq.node)

    # ------------------------------------------------------------------ R4.4
    arg_eff = [e for e in summ if e.root[0] == "param"]
    glob_eff = [e for e in summ if e.root[0] in ("global", "unknown")]
    ctx.attempt("R4.4", lambda: ctx.ob("R4.4", f, "effects on the argument: %d" % len(arg_eff), not arg_eff,
           "mapping never writes to the argument molecule" + ("" if not arg_eff else " -- " + arg_eff[0].describe()),
           node=f.node))


    ctx.attempt("R4.4", lambda: ctx.ob("R4.4", f, "effects on global/unknown storage: %d" % len(glob_eff), not glob_eff,
           "no write lands on storage of unknown ownership" + ("" if not glob_eff else " -- " + glob_eff[0].describe()),
           node=f.node))


    coord = [e for e in summ if e.root[0] == "self" and any(k in e.target for k in ("position", "velocity", "AtomGro", "Residue"))]
    ctx.attempt("R4.4", lambda: ctx.ob("R4.4", f, "coordinate writes reachable from the map's own state: %d" % len(coord), not coord,
           "coordinates of the construction molecules are never written"
           + ("" if not coord else " -- " + coord[0].describe()), node=f.node))



    # ------------------------------------------------------------------ R4.5
    rm = em.restore_mol
    fp = E.prov(rm)
    rets = [n for n in walk_no_nested(rm.node) if isinstance(n, ast.Return)]
    ok = False
    why = ""
    if len(rets) == 1 and isinstance(rets[0].value, ast.Name):
        roots = fp.of(rets[0].value)
        defs = [s for s in walk_no_nested(rm.node) if isinstance(s, ast.Assign) and norm(s.targets[0]) == rets[0].value.id]
        from_target = len(defs) == 1 and isinstance(defs[0].value, ast.Call) and call_name(defs[0].value) in ("copy", "deep_copy") \
            and attr_chain(defs[0].value.func.value) == "self._targetmolecule"
        ok = all(r[0] == "fresh" for r in roots) and from_target
        why = "" if ok else ("the result is %s" % ("not a copy of the target" if not from_target else "not freshly allocated: %s" % sorted(roots)))
    ctx.attempt("R4.5", lambda: ctx.ob("R4.5", rm, rets[0] if rets else "result", ok,
           "the molecule returned is a fresh copy of the target (its names, order and atom count)" + ("" if ok else " -- " + why),
           node=rets[0] if rets else rm.node))


    loops = [n for n in walk_no_nested(rm.node) if isinstance(n, ast.For)]
    okl = False
    if loops and rets and isinstance(rets[0].value, ast.Name):
        lp = loops[0]
        paths = enum_paths(lp.body)
        okl = norm(lp.iter) == rets[0].value.id and bool(paths)
        for p in paths:
            stores = [s for s in p.stmts() if isinstance(s, ast.Assign) and isinstance(s.targets[0], ast.Attribute)
                      and s.targets[0].attr == "position" and norm(s.targets[0].value) == norm(lp.target)]
            if len(stores) != 1 or p.end != "fall":
                okl = False
    ctx.attempt("R4.5", lambda: ctx.ob("R4.5", rm, loops[0] if loops else "restore loop", okl,
           "every atom of the result gets a new position on every path of the loop body (no construction-time "
           "coordinate survives)", node=loops[0] if loops else rm.node))


    # resids from the argument on every path to the return
    rs = [s for s in walk_no_nested(f.node) if isinstance(s, ast.Assign) and isinstance(s.targets[0], ast.Attribute)
          and s.targets[0].attr == "resids"]
    okr = False
    frets = [n for n in walk_no_nested(f.node) if isinstance(n, ast.Return)]
    if rs and frets:
        okr = norm(rs[0].value) == "%s.resids" % param and all(
            cfg.node_of(rs[0]).id in dom[cfg.node_of(r).id] and norm(r.value) == norm(rs[0].targets[0].value) for r in frets)
        src = [s for s in walk_no_nested(f.node) if isinstance(s, ast.Assign) and norm(s.targets[0]) == norm(rs[0].targets[0].value)]
        okr = okr and len(src) == 1 and isinstance(src[0].value, ast.Call) and call_name(src[0].value) == rm.name
    ctx.attempt("R4.5", lambda: ctx.ob("R4.5", f, rs[0] if rs else "residue numbers", okr,
           "the returned molecule is the restored copy and carries the argument's residue numbers on every path",
           node=rs[0] if rs else f.node))



    # ------------------------------------------------------------------ R4.6
    for api in ("Molecule.copy", "Residue.copy", "AtomGro.copy", "Residue.atoms@get"):
        g = ctx.func(api)
        roots = E.returns(g)
        bad = [r for r in roots if r[0] != "fresh"]
        ctx.ob("R4.6", g, "%s returns %s" % (api, sorted({r[0] for r in roots})), not bad,
               "copying a molecule allocates new residues, new coordinate atoms and new arrays", node=g.node)
    keep = sorted(E.ctor_alias_params(ctx.repo.cls("Molecule")))
    ctx.attempt("R4.6", lambda: ctx.ob("R4.6", ctx.func("Molecule.__init__"), "Molecule.__init__ keeps by reference: %s" % keep, keep == [],
           "a molecule stores copies of the residues it is constructed from", node=None))

    # documented sharing, listed for the record
    shared = sorted({e.target for e in E.summary(ctx.func("Molecule.resids@set")) if "AtomTop" in e.target})
    ctx.extra["documented_sharing"] = {"Molecule.copy shares the topology": True,
                                       "resids setter also writes": shared}
