"""RP.1 - double precision is kept on the numeric paths (shared by the properties whose statement gives a
numerical accuracy or an equality with a reference definition).

The properties are stated for float64 data (accuracies of 1e-9 nm, equality of an overlap measure with its
definition).  Nothing in the arithmetic of the package lowers the precision by itself; it is lowered only where the
source *says so*.  Rule (zero matches expected, positive fixture kept):

  (a) no reduced-precision float type is named on the path: float32 / float16 / single / half / 'f4' / 'f2' / 'e'
      - as a `dtype=` value, an `.astype()` argument, a constructor (`np.float32(x)`) or a `.view()`;
  (b) existing data is never cast to a data-dependent dtype (`np.asarray(x, dtype=y.dtype)`, `x.astype(y.dtype)`):
      when y holds integers the coordinates are truncated.  A fresh *allocation* with a data-dependent dtype is
      reported as not decided (it is harmless when the other array is float by construction).
Integer / boolean dtypes for index and mask arrays are not touched by the rule.
"""
from __future__ import annotations

import ast
from typing import List, Set

from ..cfg import call_name, calls_in, attr_chain
from ..core import Ctx, Func, norm
from ..resolve import Resolver
from ..util import reachable

LOW = {"float32", "float16", "single", "half", "csingle", "complex64"}
LOW_STR = {"f4", "f2", "e", "f", "float32", "float16", "single", "half", "<f4", "<f2", ">f4", ">f2", "=f4"}
CASTS = {"asarray", "ascontiguousarray", "asfortranarray", "array", "asanyarray", "astype", "asfarray", "require"}
ALLOCS = {"zeros", "ones", "empty", "full", "eye", "identity", "zeros_like", "ones_like", "empty_like", "full_like", "arange", "linspace"}
NUMERIC_PROPS = {"C01", "C02", "C03", "C06", "C07", "C08", "C17", "C18", "C19"}


def _low(e: ast.AST) -> bool:
    if isinstance(e, ast.Attribute) and e.attr in LOW:
        return True
    if isinstance(e, ast.Name) and e.id in LOW:
        return True
    if isinstance(e, ast.Constant) and isinstance(e.value, str) and e.value in LOW_STR:
        return True
    return False


def _data_dependent(e: ast.AST) -> bool:
    return any(isinstance(x, ast.Attribute) and x.attr == "dtype" for x in ast.walk(e)) or \
        any(isinstance(x, ast.Call) and call_name(x) in ("result_type", "promote_types", "min_scalar_type", "find_common_type")
            for x in ast.walk(e))


def sites(f: Func):
    """[(node, kind, text)] kind in {'low', 'cast-dd', 'alloc-dd'}"""
    out = []
    for c in calls_in(f.node):
        nm = call_name(c)
        dt = [k.value for k in c.keywords if k.arg == "dtype"]
        if nm == "astype" and c.args:
            dt.append(c.args[0])
        if nm == "view" and c.args:
            dt.append(c.args[0])
        if nm in LOW and isinstance(c.func, (ast.Attribute, ast.Name)):
            out.append((c, "low", "constructor %s" % norm(c.func)))
        for d in dt:
            if _low(d):
                out.append((c, "low", "dtype %s" % norm(d)))
            elif _data_dependent(d):
                out.append((c, "cast-dd" if nm in CASTS else "alloc-dd", "dtype %s" % norm(d)))
    return out


def scan(funcs: List[Func]):
    res = []
    for f in funcs:
        for node, kind, txt in sites(f):
            res.append((f, node, kind, txt))
    return res


def run(ctx: Ctx, rule: str = "RP.1"):
    R = Resolver(ctx.repo)
    g = R.callgraph(include_props=True)
    seeds = sorted(ctx.analysed_funcs)
    reach: Set[str] = reachable(g, seeds) | set(seeds)
    funcs = [f for q, f in ctx.repo.funcs.items() if q in reach]
    hits = scan(funcs)
    n_calls = sum(1 for f in funcs for _ in calls_in(f.node))
    ctx.extra["RP.1_scope"] = {"functions": len(funcs), "calls_inspected": n_calls}
    for f, node, kind, txt in hits:
        if kind == "low":
            ctx.ob(rule, f, node, False, "a reduced-precision float type (%s) on the numeric path: results carry ~1e-7 relative "
                   "error instead of double precision" % txt, node=node)
        elif kind == "cast-dd":
            ctx.ob(rule, f, node, False, "existing data is cast to a data-dependent dtype (%s): if that array holds "
                   "integers the coordinates are truncated" % txt, node=node)
        else:
            ctx.ob(rule, f, node, True, "allocation with a data-dependent dtype (%s); harmless only if that array is "
                   "float by construction" % txt, undecided=True, node=node)
    if not any(k in ("low", "cast-dd") for _, _, k, _ in hits):
        ctx.ob(rule, None, "%d functions reachable from the analysed ones, %d calls" % (len(funcs), n_calls), True,
               "no reduced-precision float type and no cast to a data-dependent dtype on the numeric path")
    from ..fixtures import check_fixture
    check_fixture(ctx, rule, "precision.py", lambda repo: len([h for h in scan(list(repo.funcs.values())) if h[2] in ("low", "cast-dd")]),
                  expect_exact=4)
