"""C01 - exchange map reproduces the aligned target (anchor-and-scale law).

In exact arithmetic x -> a + s (p - a) follows from:
  R1.1 the frame is orthonormal by construction on every path of the frame builder
  R1.2 projection and restoration are transposes of each other about the same origin
  R1.3 the scale factor is applied exactly once, multiplicatively
  R1.4 anchors = atoms with >= 2 bonds; frame neighbours = two lowest-numbered bonded atoms
  R1.5 the anchor assigned to a target atom is the nearest one among all frames
  R2.1 the frames used when the map is applied are those of the argument (recomputed on every call)
  R2.3 only references of one or two atoms take the single-frame branch; every larger reference gets one
       frame per anchor
  RP.1 double precision is kept (no reduced-precision float type, no cast to a data-dependent dtype)
"""
from ..core import Ctx
from . import frames, exmap

SPEC = {
    "explanation": (
        "The law x = a + s(p - a) is a composition of four code facts, each established on every path: "
        "(R1.1) calcule_base returns an orthonormal triple E with origin a = first point - shown in a vector "
        "type system with polynomial refutation, including the exactly collinear path; (R1.2) the projection "
        "is c = E(p - a) and the restoration a' + c E, i.e. the transpose about the origin of the same entry, "
        "so with E E^T = I the round trip is the identity on p - a; (R1.3) the scale factor multiplies c "
        "exactly once on the chain project -> store -> restore; (R1.4/R1.5) the anchor set, the frame "
        "neighbours and the nearest-anchor choice are the ones the property names.  Operand order, slot "
        "indices and keys are compared after resolving local names through reaching definitions.  The 1e-9 "
        "tolerance and non-degeneracy (distinct points) are not decided."),
    "exhaustive": True,
    "trusted_base": ["numpy.dot of a (3,3) frame and a 3-vector is the matrix-vector product (rows of the frame "
                     "dotted with the vector); of a 3-vector and a (3,3) frame the vector-matrix product",
                     "scipy.spatial.distance.euclidean is the Euclidean distance"],
    "assumptions": ["exact arithmetic", "reference atoms at distinct positions (norms are non-zero)"],
}


def run(ctx: Ctx):
    ctx.attempt("R1.1", lambda: frames.orthonormal(ctx, "R1.1"))
    ctx.attempt("R1.1h", lambda: frames.right_handed_and_anchored(ctx, "R1.1h", "R1.1a"))
    ctx.attempt("R1.2", lambda: exmap.r1_2(ctx))
    ctx.attempt("R1.3", lambda: exmap.r1_3(ctx))
    ctx.attempt("R1.4", lambda: exmap.r1_4(ctx))
    ctx.attempt("R1.5", lambda: exmap.r1_5(ctx))
    ctx.attempt("R2.1", lambda: exmap.r2_1(ctx))
    ctx.attempt("R2.3", lambda: exmap.r2_3(ctx))     # which references take the single-frame branch (one or two atoms only), and what it keeps
