"""C07 - single-atom move restores every bond length on acyclic molecules.

R7.1 the input array is never modified: every item/augmented store targets the copy made on entry
R7.2 the moved atom is displaced exactly once by the requested vector and is marked visited before the traversal
R7.3 visited discipline: every enqueue of an atom is paired with marking it visited; inside the traversal the
     pair is guarded by "not yet visited"
R7.4 the random displacement is perpendicular by construction (cross product with the required vector)
R7.5 the pull lands on the tabulated length: new separation = (m - k) u with (s m - k)^2 = b^2 as polynomials
R7.6 the single-atom move keeps no table between calls unless its key holds, by value, everything the entries are computed from
"""
from __future__ import annotations

import ast
from typing import Dict, List, Optional, Tuple

from ..cfg import (CFG, call_name, calls_in, walk_no_nested, parents_map, guards_of, attr_chain, enum_paths,
                   const_int, ancestors)
from ..core import AnalysisError, Ctx, Func, norm
from ..poly import Poly, poly_of
from ..vec import _is_norm_call

SPEC = {
    "explanation": (
        "move_mol_atom is analysed with reaching definitions and a pairing rule; find_atom_random_displ with "
        "the vector typing used for frames.  R7.1: every write into the positions array happens through a "
        "local whose only reaching definition is np.copy(parameter).  R7.2/R7.3: the chosen atom is displaced "
        "once and removed from the unvisited set before the traversal; each enqueue (parent, child, length) is "
        "followed in the same block by marking the child visited and, inside the traversal, guarded by the "
        "child being unvisited - so every atom is positioned exactly once, after its parent's final position, "
        "which makes each traversal-tree bond the last one written.  R7.5: with d = parent - child read before "
        "the store, m = |d|, u = d/m and child' = child + k u, the new separation is (m - k) u; the polynomial "
        "normaliser must reduce (s m - k)^2 - b^2 to zero with b the tabulated length taken from the queue "
        "entry (today k = m - b).  Hence, in exact arithmetic and for positive lengths, every traversal-tree "
        "bond - every bond of a tree - has its tabulated length.  R7.4: on each of the three neighbour-count "
        "branches the direction is cross(A, B) with the vector the property names among the operands, then "
        "normalised and scaled by a scalar.  The 1e-9 tolerance and finiteness for degenerate geometry are not decided."),
    "exhaustive": True,
    "trusted_base": ["np.copy allocates; np.cross(a, b) is perpendicular to a and b", "deque/list pop/append semantics"],
    "assumptions": ["bond table lengths are positive; bonded atoms do not coincide (norms non-zero)",
                    "the bond table is symmetric (built by Molecule.bonds_distance)"],
}


def run(ctx: Ctx):
    f = ctx.func("move_mol_atom")
    g = ctx.func("find_atom_random_displ")
    ctx.attempt("R7.1", lambda: r7_1(ctx, f))
    ctx.attempt("R7.2", lambda: r7_2_3(ctx, f))
    ctx.attempt("R7.5", lambda: r7_5(ctx, f))
    ctx.attempt("R7.4", lambda: r7_4(ctx, g, f))
    ctx.attempt("R7.6", lambda: r7_6(ctx, f, g))


def _pos_param(f: Func) -> str:
    return f.params[0]


def r7_1(ctx: Ctx, f: Func, rule="R7.1"):
    cfg = CFG(f.node)
    rd = cfg.reaching_defs(f.params)
    dom = cfg.dominators()
    P = _pos_param(f)
    sites = []
    for st in walk_no_nested(f.node):
        tgt = None
        if isinstance(st, ast.Assign) and isinstance(st.targets[0], ast.Subscript):
            tgt = st.targets[0]
        elif isinstance(st, ast.AugAssign):
            tgt = st.target
        if tgt is None:
            continue
        base = tgt.value if isinstance(tgt, ast.Subscript) else tgt
        if not isinstance(base, ast.Name):
            continue
        # arrays: anything that may alias the positions parameter
        sites.append((st, base.id))
    n = 0
    for st, name in sites:
        node = cfg.node_of(st)
        defs = rd.at(node, name)
        strong = [d for d in defs if d.kind == "entry" or (isinstance(d.ast, ast.Assign) and any(
            isinstance(t, ast.Name) and t.id == name for t in d.ast.targets))]
        # is this array derived from the positions parameter at all?
        derived = False
        ok = True
        why = ""
        for d in strong:
            if d.kind == "entry":
                if name == P:
                    derived, ok, why = True, False, "the parameter itself is written"
                continue
            v = d.ast.value
            names = {x.id for x in ast.walk(v) if isinstance(x, ast.Name)}
            if P in names or name == P:
                derived = True
                is_copy = isinstance(v, ast.Call) and ((call_name(v) in ("copy", "array") and norm(v.func).startswith(("np.", "numpy."))
                                                        and v.args and norm(v.args[0]) == P)
                                                       or (call_name(v) == "copy" and isinstance(v.func, ast.Attribute)
                                                           and norm(v.func.value) == P)
                                                       or (call_name(v) == "deepcopy"))
                if not is_copy:
                    ok, why = False, "`%s` is defined by `%s`, which is not a copy of the input" % (name, norm(v))
                elif d.id not in dom[node.id]:
                    ok, why = False, "the copy does not dominate the write"
        if not derived:
            continue
        n += 1
        ctx.ob(rule, f, st, ok and len(strong) == 1,
               "writes into the positions go to the copy made on entry (unique reaching definition np.copy(input))"
               + ("" if ok and len(strong) == 1 else " -- " + (why or "several definitions reach the write")), node=st)
    ctx.floor(rule, n, 2, "writes into the positions array")
    rets = [r for r in walk_no_nested(f.node) if isinstance(r, ast.Return) and r.value is not None]
    okr = bool(rets)
    for r in rets:
        nd = cfg.node_of(r)
        ds = rd.at(nd, norm(r.value)) if isinstance(r.value, ast.Name) else []
        okr &= bool(ds) and all(isinstance(d.ast, ast.Assign) and isinstance(d.ast.value, ast.Call)
                                and call_name(d.ast.value) in ("copy", "array", "deepcopy") for d in ds
                                if d.kind != "entry" and any(isinstance(t, ast.Name) for t in getattr(d.ast, "targets", []))) \
            and not any(d.kind == "entry" for d in ds)
    ctx.ob(rule, f, rets[0] if rets else "return", okr, "the array returned is the modified copy", node=rets[0] if rets else f.node)


def _traversal(f: Func):
    """(while loop, queue name, unvisited name or None, visited name or None)."""
    loops = [n for n in walk_no_nested(f.node) if isinstance(n, ast.While)]
    for l in loops:
        q = norm(l.test)
        pops = [c for c in calls_in(l) if call_name(c) in ("pop", "popleft") and norm(c.func.value) == q]
        if pops:
            return l, q, pops[0]
    return None, None, None


def r7_6(ctx: Ctx, f: Func, g: Optional[Func] = None, rule="R7.6"):
    """The single-atom move is a function of its arguments and the random stream: nothing is remembered in module-level
    containers between calls (a remembered traversal is stale as soon as the caller changes the bond table in place)."""
    from ..util import persistent_state
    persistent_state(ctx, rule, [x for x in (f, g) if x is not None], "the single-atom move")


def r7_2_3(ctx: Ctx, f: Func):
    loop, q, pop = _traversal(f)
    if loop is None:
        ctx.ob("R7.3", f, "bond-restoring traversal", True,
               "the traversal is not a `while queue:` loop popping (parent, child, length) entries in this function; not decided on this tree",
               undecided=True, node=f.node)
        return
    pm = parents_map(f.node)
    P = None
    # the working array: target of the augmented displacement
    augs = [s for s in walk_no_nested(f.node) if isinstance(s, ast.AugAssign) and isinstance(s.target, ast.Subscript)
            and isinstance(s.op, ast.Add) and not any(s is x for x in ast.walk(loop))]
    idx_p = f.params[2] if len(f.params) > 2 else "atom_index"
    dis_p = f.params[3] if len(f.params) > 3 else "displ"
    ok = len(augs) == 1 and norm(augs[0].target.slice) == idx_p and norm(augs[0].value) == dis_p
    ctx.ob("R7.2", f, augs[0] if augs else "displacement", ok,
           "the chosen atom is displaced exactly once, by the requested (or drawn) vector", node=augs[0] if augs else f.node)
    # the requested atom / displacement are used when given: the random draws sit under `<param> is None`
    pmf = parents_map(f.node)
    for pname, callee in ((idx_p, "randint"), (dis_p, "find_atom_random_displ")):
        draws = [s_ for s_ in walk_no_nested(f.node) if isinstance(s_, ast.Assign) and norm(s_.targets[0]) == pname
                 and isinstance(s_.value, ast.Call) and call_name(s_.value) == callee]
        okg = bool(draws)
        for d_ in draws:
            gs = guards_of(d_, pmf)
            okg = okg and len(gs) == 1 and ((norm(gs[0][0]) == "%s is None" % pname and gs[0][1]) or
                                            (norm(gs[0][0]) == "%s is not None" % pname and not gs[0][1]))
        ctx.ob("R7.2", f, draws[0] if draws else "default for `%s`" % pname, okg,
               "`%s` is drawn at random only when the caller did not supply it" % pname, node=draws[0] if draws else f.node)
    # any write to the moved atom's row inside the traversal would displace it again: excluded by R7.3 (visited)
    # marking: either removal from an 'unvisited' container or insertion into a 'visited' one
    def marks(stmt, who: str) -> Optional[str]:
        if isinstance(stmt, ast.Expr) and isinstance(stmt.value, ast.Call) and stmt.value.args \
                and norm(stmt.value.args[0]) == who:
            nm = call_name(stmt.value)
            if nm in ("remove", "discard"):
                return "unvisited:" + norm(stmt.value.func.value)
            if nm in ("add", "append") and norm(stmt.value.func.value) != q:
                return "visited:" + norm(stmt.value.func.value)
        return None
    pre = [s for s in walk_no_nested(f.node) if not any(s is x for x in ast.walk(loop)) and isinstance(s, ast.stmt)]
    root_marked = [marks(s, idx_p) for s in pre if marks(s, idx_p)]
    ctx.ob("R7.2", f, "moved atom marked visited before the traversal: %s" % root_marked, bool(root_marked),
           "the moved atom is taken out of the set of atoms still to be positioned (it is never re-positioned)",
           node=augs[0] if augs else f.node)
    container = root_marked[0] if root_marked else None
    # enqueue sites
    n = 0
    for c in calls_in(f.node):
        if call_name(c) in ("append", "appendleft") and norm(c.func.value) == q and c.args and isinstance(c.args[0], ast.Tuple) \
                and len(c.args[0].elts) == 3:
            n += 1
            st = c
            while not isinstance(st, ast.stmt):
                st = pm[id(st)]
            child = norm(c.args[0].elts[1])
            blk = None
            par = pm.get(id(st))
            for fld in ("body", "orelse"):
                b = getattr(par, fld, None)
                if isinstance(b, list) and any(s is st for s in b):
                    blk = b
            paired = [marks(s, child) for s in (blk or []) if marks(s, child)]
            inside = any(st is x for x in ast.walk(loop))
            ok = bool(paired) and (container is None or paired[0] == container)
            guard_ok = True
            if inside:
                gs = guards_of(st, pm)
                cont = (container or "").split(":")[-1]
                kind = (container or "").split(":")[0]
                guard_ok = any((kind == "unvisited" and norm(t) == "%s in %s" % (child, cont) and pol) or
                               (kind == "visited" and norm(t) == "%s not in %s" % (child, cont) and pol) or
                               (kind == "visited" and norm(t) == "%s in %s" % (child, cont) and not pol)
                               for t, pol in gs)
            ctx.ob("R7.3", f, c, ok and guard_ok,
                   "each enqueue of an atom is paired, in the same block, with marking that atom visited"
                   + (" and guarded by the atom being unvisited" if inside else "")
                   + ("" if ok else " -- `%s` is not marked where it is enqueued" % child)
                   + ("" if guard_ok else " -- no 'not yet visited' guard around the enqueue"), node=c)
    ctx.floor("R7.3", n, 2, "enqueue sites")
    # no early exit from the traversal body: every dequeued atom is re-positioned and its neighbours are scheduled
    early = [n_ for n_ in walk_no_nested(loop) if isinstance(n_, (ast.Continue, ast.Break, ast.Return))]
    inner_for = [n_ for n_ in loop.body if isinstance(n_, ast.For)]
    early = [n_ for n_ in early if not any(any(n_ is x for x in ast.walk(l_)) for l_ in inner_for)]
    ctx.ob("R7.3", f, early[0] if early else "traversal body", not early,
           "every atom taken from the queue is re-positioned and its unvisited neighbours are enqueued (no early "
           "continue/break that would leave a branch of the molecule unvisited)", node=early[0] if early else loop)
    # initial unvisited set covers all atoms
    if container and container.startswith("unvisited:"):
        nm = container.split(":")[1]
        init = [s for s in walk_no_nested(f.node) if isinstance(s, ast.Assign) and norm(s.targets[0]) == nm]
        oki = bool(init) and "range(" in norm(init[0].value)
        ctx.ob("R7.3", f, init[0] if init else "unvisited set", oki, "initially every atom is unvisited", node=init[0] if init else f.node)


def _inline_helper(ctx: Ctx, f: Func, call: ast.Call):
    """(pre-assignments [(name, expr)], early returns [(cond, expr, node)], final expr, helper Func) with the helper's
    parameters replaced by the call's arguments and its locals renamed; None if the helper is not of that shape."""
    import copy
    g = ctx.repo.funcs.get(f.module.name + "." + call.func.id)
    if g is None or g.cls is not None:
        return None
    params = g.params
    if len(call.args) + len(call.keywords) != len(params) or any(k.arg is None for k in call.keywords):
        return None
    pmap = dict(zip(params, call.args))
    for k in call.keywords:
        pmap[k.arg] = k.value
    if set(pmap) != set(params):
        return None
    local_names = {s.targets[0].id for s in g.node.body if isinstance(s, ast.Assign) and isinstance(s.targets[0], ast.Name)}

    class Sub(ast.NodeTransformer):
        def visit_Name(self, node):
            if node.id in pmap and node.id not in local_names:
                return copy.deepcopy(pmap[node.id])
            if node.id in local_names:
                return ast.copy_location(ast.Name("_h_" + node.id, node.ctx), node)
            return node

    def sub(e):
        return Sub().visit(copy.deepcopy(e))
    pre, early, final = [], [], None
    for s in g.node.body:
        if isinstance(s, ast.Expr) and isinstance(s.value, ast.Constant):
            continue
        if isinstance(s, ast.Assign) and isinstance(s.targets[0], ast.Name) and len(s.targets) == 1:
            pre.append(("_h_" + s.targets[0].id, sub(s.value)))
        elif isinstance(s, ast.If) and not s.orelse and len(s.body) == 1 and isinstance(s.body[0], ast.Return) and s.body[0].value is not None:
            early.append((sub(s.test), sub(s.body[0].value), s))
        elif isinstance(s, ast.Return) and s.value is not None:
            final = sub(s.value)
            break
        else:
            return None
    if final is None:
        return None
    return pre, early, final, g


def r7_5(ctx: Ctx, f: Func, rule="R7.5"):
    loop, q, pop = _traversal(f)
    if loop is None:
        ctx.ob(rule, f, "pull along the bond", True, "traversal loop not recognised; pull length not decided on this tree",
               undecided=True, node=f.node)
        return
    # unpack of the queue entry
    unpack = [s for s in loop.body if isinstance(s, ast.Assign) and s.value is pop and isinstance(s.targets[0], ast.Tuple)
              and len(s.targets[0].elts) == 3]
    if not unpack:
        ctx.ob(rule, f, pop, True, "queue entry unpacking not recognised; pull length not decided", undecided=True, node=pop)
        return
    par, child, blen = [norm(e) for e in unpack[0].targets[0].elts]
    # the update region: statements of the traversal body up to the loop that schedules the neighbours; every path
    # through it re-positions the reached atom exactly once
    region = []
    for s in loop.body:
        if isinstance(s, (ast.For, ast.While)):
            break
        region.append(s)

    def row_store(s):
        if isinstance(s, ast.Assign) and isinstance(s.targets[0], ast.Subscript) and norm(s.targets[0].slice) == child:
            return True
        return isinstance(s, ast.AugAssign) and isinstance(s.target, ast.Subscript) and norm(s.target.slice) == child
    paths = enum_paths(region)
    for p_ in paths:
        if p_.end != "fall":
            continue
        sts = p_.stmts()
        hits = [s for s in sts if row_store(s)]
        if len(hits) != 1:
            ctx.ob(rule, f, loop, False, "the reached atom is re-positioned exactly once per visit -- %d stores to row `%s` on path [%s]"
                   % (len(hits), child, p_.describe()[:120]), node=loop)
            continue
        st = hits[0]
        env: Dict[str, ast.AST] = {}
        for s in sts:
            if s is st:
                break
            if isinstance(s, ast.Assign) and isinstance(s.targets[0], ast.Name):
                env[s.targets[0].id] = s.value
        _r7_5_path(ctx, f, rule, st, env, p_.conds(), par, child, blen, len(paths))
    _r7_5_queue(ctx, f, rule, q)
    # entry order matches the unpack order (parent, child, length)
    ctx.ob(rule, f, unpack[0], True, "entries are unpacked as (parent=%s, child=%s, length=%s); the row written is the child's"
           % (par, child, blen), node=unpack[0])


def _expand(e: ast.AST, env: Dict[str, ast.AST], depth: int = 0) -> ast.AST:
    while isinstance(e, ast.Name) and e.id in env and depth < 8:
        e, depth = env[e.id], depth + 1
    return e


def _r7_5_path(ctx: Ctx, f: Func, rule: str, st, env, conds, par, child, blen, npaths):
    arr = norm((st.targets[0] if isinstance(st, ast.Assign) else st.target).value)
    rowc_ = "%s[%s]" % (arr, child)
    if isinstance(st, ast.Assign) and norm(_expand(st.value, env)) == rowc_:
        # the atom is left where it is on this path: allowed only when the separation already equals the tabulated
        # length exactly
        tests = [t for t, pol in conds]
        tol = any(isinstance(x, ast.Call) and call_name(x) in ("isclose", "allclose", "abs", "fabs", "round") for t in tests for x in ast.walk(t)) \
            or any(isinstance(x, ast.Compare) and isinstance(x.ops[0], (ast.Lt, ast.LtE, ast.Gt, ast.GtE)) for t in tests for x in ast.walk(t))
        if tol:
            ctx.ob(rule, f, "atom left where it is when %s" % " and ".join(("" if pol else "not ") + norm(t) for t, pol in conds), False,
                   "every reached atom is put at exactly the tabulated distance: leaving it untouched is allowed only when the "
                   "separation already equals the tabulated length exactly -- the guarding test is a tolerance test "
                   "(numpy's default is 1e-5 relative), so bonds stay off by up to that much", node=st)
        else:
            ctx.ob(rule, f, st, True, "the reached atom is left untouched on a path whose condition is not recognised; not decided",
                   undecided=True, node=st)
        return
    from ..poly import Rat
    import copy as _copy
    m, b = Poly.sym("m"), Poly.sym("b")
    rowp, rowc = "%s[%s]" % (arr, par), "%s[%s]" % (arr, child)
    # locals that merely name one of the two rows are read as the row itself
    alias = {k: v for k, v in env.items() if norm(v) in (rowp, rowc)}
    if alias:
        class _Rows(ast.NodeTransformer):
            def visit_Name(self, node):
                return _copy.deepcopy(alias[node.id]) if node.id in alias and isinstance(node.ctx, ast.Load) else node
        env = {k: _Rows().visit(_copy.deepcopy(v)) for k, v in env.items() if k not in alias}
        st = _copy.deepcopy(st)
        st.value = _Rows().visit(st.value)
    # separation vector and its sign; any other combination of the two rows is not a separation
    sep_names: Dict[str, int] = {}
    for k, v in env.items():
        if isinstance(v, ast.BinOp) and {norm(v.left), norm(v.right)} == {rowp, rowc}:
            if isinstance(v.op, ast.Sub):
                sep_names[k] = 1 if norm(v.left) == rowp else -1
            else:
                ctx.ob(rule, f, "%s = %s" % (k, norm(v)), False,
                       "the vector along which the reached atom is pulled is the difference of the two atoms' "
                       "positions -- `%s` is not a difference" % norm(v), node=v)
                return
    norm_names = {}
    for k, v in env.items():
        a = _is_norm_call(v)
        if a is not None and norm(a) in sep_names:
            norm_names[k] = norm(a)

    def scalar(e) -> Optional[Rat]:
        """Scalar expression in the separation's length m and the tabulated length b."""
        if isinstance(e, ast.Name) and e.id in norm_names:
            return Rat(m)
        if isinstance(e, ast.Name) and e.id == blen:
            return Rat(b)
        a = _is_norm_call(e)
        if a is not None and norm(a) in sep_names:
            return Rat(m)
        if isinstance(e, ast.Name) and e.id in env and e.id not in sep_names:
            return scalar(env[e.id])
        if isinstance(e, ast.Constant) and isinstance(e.value, (int, float)) and not isinstance(e.value, bool):
            from fractions import Fraction
            return Rat(Poly.const(Fraction(e.value).limit_denominator(10 ** 9)))
        if isinstance(e, ast.UnaryOp) and isinstance(e.op, ast.USub):
            x = scalar(e.operand)
            return -x if x is not None else None
        if isinstance(e, ast.BinOp):
            x, y = scalar(e.left), scalar(e.right)
            if x is None or y is None:
                return None
            if isinstance(e.op, ast.Add):
                return x + y
            if isinstance(e.op, ast.Sub):
                return x - y
            if isinstance(e.op, ast.Mult):
                return x * y
            if isinstance(e.op, ast.Div):
                return x / y
        return None

    def coeff(e):
        """(K, s): e == K * u, u = unit vector along s*(parent - child); K a rational function of m, b."""
        if isinstance(e, ast.Name) and e.id in sep_names:
            return Rat(m), sep_names[e.id]
        if isinstance(e, ast.Name) and e.id in env:
            return coeff(env[e.id])
        if isinstance(e, ast.UnaryOp) and isinstance(e.op, ast.USub):
            c = coeff(e.operand)
            return (-c[0], c[1]) if c else None
        if isinstance(e, ast.BinOp) and isinstance(e.op, ast.Mult):
            for x, y in ((e.left, e.right), (e.right, e.left)):
                c, k = coeff(y), scalar(x)
                if c is not None and k is not None:
                    return k * c[0], c[1]
        if isinstance(e, ast.BinOp) and isinstance(e.op, ast.Div):
            c, k = coeff(e.left), scalar(e.right)
            if c is not None and k is not None:
                return c[0] / k, c[1]
        return None
    # child' = alpha*parent_row + beta*child_row + K u   with (alpha, beta) = (0, 1) or (1, 0)
    if isinstance(st, ast.Assign):
        v = st.value
        base = None
        c = None
        sign = 1
        if isinstance(v, ast.BinOp) and isinstance(v.op, (ast.Add, ast.Sub)):
            if norm(v.left) in (rowc, rowp):
                base, c, sign = norm(v.left), coeff(v.right), (1 if isinstance(v.op, ast.Add) else -1)
            elif norm(v.right) in (rowc, rowp) and isinstance(v.op, ast.Add):
                base, c = norm(v.right), coeff(v.left)
    else:
        base, c = rowc, coeff(st.value)
        sign = 1 if isinstance(st.op, ast.Add) else (-1 if isinstance(st.op, ast.Sub) else 0)
    if base is not None and c is None:
        # a separation-derived vector in a denominator / under a non-linear operation is never k * u
        term = st.value if not isinstance(st, ast.Assign) else (st.value.right if norm(st.value.left) in (rowc, rowp) else st.value.left)
        vec_names = set(sep_names) | {k for k, v in env.items() if coeff(ast.Name(k, ast.Load())) is not None}
        for n_ in ast.walk(term):
            if isinstance(n_, ast.BinOp) and isinstance(n_.op, (ast.Div, ast.Pow, ast.FloorDiv, ast.Mod)) \
                    and any(isinstance(x, ast.Name) and x.id in vec_names for x in ast.walk(n_.right)):
                ctx.ob(rule, f, st, False, "the reached atom is moved along the bond direction by a scalar amount -- "
                       "`%s` divides by / exponentiates with the direction vector" % norm(n_), node=st)
                return
    if base is None or c is None or sign == 0:
        ctx.ob(rule, f, st, True, "update of the reached atom is not of the form row + k * (separation direction); "
               "pull length not decided on this tree", undecided=True, node=st)
        return
    K, s = c[0] * Rat(Poly.const(sign)), c[1]
    if base == rowc:
        new_sep = Rat(Poly.const(s)) * Rat(m) - K        # (parent - child) - K u
    else:
        new_sep = -K                                     # parent - (parent + K u)
    resid = new_sep * new_sep - Rat(b) * Rat(b)
    ok = resid.n.is_zero()
    ctx.ob(rule, f, st, ok,
           "after the update the bond (parent, child) has the tabulated length: with separation sign s=%+d and the "
           "update %s + (%r) u the new separation is (%r) u, whose square must reduce to b^2" % (s, "child" if base == rowc else "parent", K, new_sep)
           + ("" if ok else " -- it does not: the new length is |%r|, not b" % (new_sep,)),
           node=st, separation_sign=s, k=repr(K))


def _r7_5_queue(ctx: Ctx, f: Func, rule: str, q: str):
    # the separation is read before the store (same iteration) - by construction of env (statements before st)
    # the tabulated length comes from the bond table entry of (parent -> child)
    n = 0
    for cc in calls_in(f.node):
        if call_name(cc) in ("append", "appendleft") and norm(cc.func.value) == q and cc.args and isinstance(cc.args[0], ast.Tuple):
            n += 1
            p_, c_, l_ = cc.args[0].elts
            pm = parents_map(f.node)
            lp = [a for a in ancestors(cc, pm) if isinstance(a, ast.For)]
            okq = False
            if lp:
                it = lp[0].iter        # bonds_info[parent]
                tv = norm(lp[0].target)
                # locals of the loop body that merely name an element of the table entry are read as that element
                al_ = {}
                for s_ in ast.walk(lp[0]):
                    if isinstance(s_, ast.Assign) and len(s_.targets) == 1 and isinstance(s_.targets[0], ast.Name) \
                            and isinstance(s_.value, ast.Subscript) and norm(s_.value.value) == tv:
                        al_[s_.targets[0].id] = norm(s_.value)
                if isinstance(lp[0].target, ast.Tuple) and len(lp[0].target.elts) == 2:
                    # the table entry unpacked in the loop header: for (bonded atom, length) in bonds_info[parent]
                    e0_, e1_ = [norm(x_) for x_ in lp[0].target.elts]
                    al_.setdefault(e0_, "%s[0]" % tv)
                    al_.setdefault(e1_, "%s[1]" % tv)
                okq = isinstance(it, ast.Subscript) and norm(it.slice) == norm(p_) \
                    and al_.get(norm(c_), norm(c_)) == "%s[0]" % tv and al_.get(norm(l_), norm(l_)) == "%s[1]" % tv and norm(it.value) == f.params[1]
            ctx.ob(rule, f, cc, okq,
                   "queue entries are (positioned atom, bonded atom, tabulated length of that bond), taken from the "
                   "positioned atom's row of the bond table", node=cc)


_SPEC_FN = [None]
_COUNT_OF = [None]          # text of the neighbour row (`bonds_info[atom_index]`), set by r7_4


def _is_count(e: ast.AST, cnt: Optional[str]) -> bool:
    """the number of bonded neighbours: the count variable, or len(<the neighbour row>) written in place"""
    if cnt is not None and norm(e) == cnt:
        return True
    if isinstance(e, ast.Call) and call_name(e) == "len" and len(e.args) == 1 and _COUNT_OF[0] and _SPEC_FN[0] is not None:
        from ..pat import expand_single_defs as _x
        return norm(_x(_SPEC_FN[0], e.args[0])).replace(" ", "") == _COUNT_OF[0].replace(" ", "")
    return False


def _specialise(e: ast.AST, sd: Dict[str, ast.AST], cnt: Optional[str], n: int, depth: int = 0) -> Optional[ast.AST]:
    """`e` with locals that are bound once expanded to their values and conditional expressions on the neighbour
    count resolved for a count of n; None if a conditional cannot be resolved"""
    import copy as _c
    if depth > 6:
        return None

    def count_test(t):
        pol = True
        while isinstance(t, ast.UnaryOp) and isinstance(t.op, ast.Not):
            t, pol = t.operand, not pol
        if isinstance(t, ast.Compare) and len(t.ops) == 1 and _is_count(t.left, cnt) and const_int(t.comparators[0]) is not None:
            v = const_int(t.comparators[0])
            val = {ast.Eq: n == v, ast.NotEq: n != v, ast.Gt: n > v, ast.GtE: n >= v, ast.Lt: n < v, ast.LtE: n <= v}.get(type(t.ops[0]))
            return None if val is None else (val == pol)
        return None
    failed = []

    class T(ast.NodeTransformer):
        def visit_IfExp(self, node):
            tv = count_test(node.test)
            if tv is None:
                failed.append(node)
                return node
            return self.visit(node.body if tv else node.orelse)

        def visit_Name(self, node):
            if isinstance(node.ctx, ast.Load) and node.id in sd and node.id != cnt:
                r = _specialise(sd[node.id], sd, cnt, n, depth + 1)
                if r is None:
                    failed.append(node)
                    return node
                return r
            fn_ = _SPEC_FN[0]
            if isinstance(node.ctx, ast.Load) and node.id != cnt and fn_ is not None and cnt is not None:
                # a local bound in several branches of tests on the neighbour count: the binding that holds for n
                defs_ = [s_ for s_ in walk_no_nested(fn_) if isinstance(s_, ast.Assign) and len(s_.targets) == 1
                         and isinstance(s_.targets[0], ast.Name) and s_.targets[0].id == node.id]
                if len(defs_) >= 2:
                    pm_ = parents_map(fn_)
                    live = []
                    for d_ in defs_:
                        gs_ = guards_of(d_, pm_)
                        vals = [count_test(t_) for t_, _ in gs_]
                        if gs_ and None not in vals and all(v_ == pol_ for v_, (_, pol_) in zip(vals, gs_)):
                            live.append(d_)
                        elif not gs_ or None in vals:
                            live = None
                            break
                    if live is not None and len(live) == 1:
                        r = _specialise(live[0].value, sd, cnt, n, depth + 1)
                        if r is not None:
                            return r
            return node
    out = T().visit(_c.deepcopy(e))
    if not failed:
        from ..pat import simplify_indexed
        out = simplify_indexed(out)
    return None if failed else out


def r7_4(ctx: Ctx, g: Func, f: Func, rule="R7.4"):
    P, B, I = g.params[0], g.params[1], g.params[2]

    def nb(k):
        return "%s[%s[%s][%d][0]]" % (P, B, I, k)
    me = "%s[%s]" % (P, I)

    def diff_key(e) -> Optional[frozenset]:
        if isinstance(e, ast.BinOp) and isinstance(e.op, ast.Sub):
            return frozenset((norm(e.left), norm(e.right)))
        return None
    want = {1: [frozenset((nb(0), me))],
            2: [frozenset((nb(0), nb(1)))],
            3: [frozenset((nb(0), nb(1))), frozenset((nb(0), nb(2)))]}
    alt3 = [frozenset((nb(1), nb(2)))]
    # count variable
    cnt = None
    from ..pat import single_defs as _sd
    for s in g.node.body:
        if isinstance(s, ast.Assign) and isinstance(s.value, ast.Call) and call_name(s.value) == "len" and s.value.args:
            a0 = _specialise(s.value.args[0], {k_: v_ for k_, v_ in _sd(g.node).items() if k_ != norm(s.targets[0])}, None, 0)
            if a0 is not None and norm(a0) == "%s[%s]" % (B, I):
                cnt = norm(s.targets[0])
    pm = parents_map(g.node)
    crosses = [s for s in walk_no_nested(g.node) if isinstance(s, ast.Assign) and isinstance(s.value, ast.Call)
               and call_name(s.value) == "cross" and len(s.value.args) == 2]
    seen = set()
    dirvar = None
    from ..pat import single_defs
    sd_ = single_defs(g.node)
    _COUNT_OF[0] = "%s[%s]" % (B, I)
    from ..pat import unpacked_defs
    for k_, v_ in unpacked_defs(g.node).items():
        sd_.setdefault(k_, v_)
    _SPEC_FN[0] = g.node
    for s in crosses:
        gs = guards_of(s, pm)
        # which neighbour counts reach this statement?  evaluate the guards for n = 1..6
        counts = []
        for n_ in range(1, 7):
            reach = True
            for t, pol in gs:
                while isinstance(t, ast.UnaryOp) and isinstance(t.op, ast.Not):     # integer counts: not (n >= 3) == n < 3
                    t, pol = t.operand, not pol
                if isinstance(t, ast.Compare) and _is_count(t.left, cnt) and len(t.ops) == 1 and const_int(t.comparators[0]) is not None:
                    v = const_int(t.comparators[0])
                    val = {ast.Eq: n_ == v, ast.NotEq: n_ != v, ast.Gt: n_ > v, ast.GtE: n_ >= v,
                           ast.Lt: n_ < v, ast.LtE: n_ <= v}.get(type(t.ops[0]))
                    if val is None or val != pol:
                        reach = False
                else:
                    reach = False
            if reach:
                counts.append(n_)
        if not gs or not counts:
            continue
        groups = [[c_ for c_ in counts if c_ >= 3]] + [[c_] for c_ in counts if c_ < 3]
        for grp in [g_ for g_ in groups if g_]:
            k = 3 if grp[0] >= 3 else grp[0]
            seen.add(k)
            if k == 3 and grp != [3, 4, 5, 6]:
                ctx.ob(rule, g, s, False, "the three-or-more case covers every count >= 3 -- it covers %s" % grp, node=s)
            dirvar = norm(s.targets[0])
            args = [_specialise(a, sd_, cnt, grp[0]) for a in s.value.args]
            if any(a is None for a in args):
                ctx.ob(rule, g, s, True, "operands of the cross product for %d neighbour(s) not in the modelled fragment; not decided" % k,
                       undecided=True, node=s)
                continue
            # operands still written with locals that this rule could not resolve (bound in several places, unpacked from a
            # slice ...): what they stand for is not known here
            loc_ = {x.id for s_ in walk_no_nested(g.node) for x in ast.walk(s_) if isinstance(x, ast.Name) and isinstance(x.ctx, ast.Store)}
            unres = sorted({x.id for a in args for x in ast.walk(a) if isinstance(x, ast.Name) and x.id in loc_ and x.id not in g.params})
            if unres:
                ctx.ob(rule, g, s, True, "operands of the cross product for %d neighbour(s) are written with locals this rule does not "
                       "resolve (%s); not decided on this tree" % (k, ", ".join(unres)), undecided=True, node=s)
                continue
            keys = [diff_key(a) for a in args]
            have = [x for x in keys if x is not None]
            need = want.get(k, [])
            if k == 3:
                edges = set(have)
                ok = len(edges) == 2 and edges <= set(want[3] + alt3)
            else:
                ok = all(n_ in have for n_ in need)
            ctx.ob(rule, g, "%s  [%d neighbour(s)]" % (norm(s), k) if len(groups) > 1 and len([g_ for g_ in groups if g_]) > 1 else s, ok,
                   {1: "one neighbour: the direction is a cross product with the bond vector (so it is perpendicular to the bond)",
                    2: "two neighbours: the direction is a cross product with the vector joining the first two neighbours",
                    3: "three or more neighbours: the direction is the cross product of two edge vectors of the triangle "
                       "of the first three neighbours (normal to their plane)"}[k]
                   + ("" if ok else " -- operands are %s" % [norm(a) for a in args]), node=s, neighbours=k)
    ctx.ob(rule, g, "neighbour-count branches covered: %s" % sorted(seen), seen == {1, 2, 3},
           "each neighbour-count case builds its direction with a cross product", node=g.node)
    # normalisation and scalar scaling keep the direction
    rets = [r for r in walk_no_nested(g.node) if isinstance(r, ast.Return)]
    okn = False
    if dirvar and rets:
        body = g.node.body
        normed = [s for s in body if (isinstance(s, ast.Assign) and norm(s.targets[0]) == dirvar and isinstance(s.value, ast.BinOp)
                                      and isinstance(s.value.op, ast.Div) and norm(s.value.left) == dirvar
                                      and _is_norm_call(s.value.right) is not None and norm(_is_norm_call(s.value.right)) == dirvar)
                  or (isinstance(s, ast.AugAssign) and norm(s.target) == dirvar and isinstance(s.op, ast.Div)
                      and _is_norm_call(s.value) is not None and norm(_is_norm_call(s.value)) == dirvar)]
        rv = rets[0].value
        rdef = None
        if isinstance(rv, ast.Name):
            ds = [s for s in body if isinstance(s, ast.Assign) and norm(s.targets[0]) == rv.id]
            rdef = ds[-1].value if ds else None
        else:
            rdef = rv
        scaled = isinstance(rdef, ast.BinOp) and isinstance(rdef.op, ast.Mult) and dirvar in (norm(rdef.left), norm(rdef.right)) \
            and any(isinstance(x, ast.Call) and "random" in norm(x.func) for x in ast.walk(rdef))
        okn = bool(normed) and scaled
        if not okn:
            # the unit vector may get a name of its own: u = direction / |direction| ; return u * <random scalar>
            units = [norm(s.targets[0]) for s in body if isinstance(s, ast.Assign) and isinstance(s.targets[0], ast.Name)
                     and isinstance(s.value, ast.BinOp) and isinstance(s.value.op, ast.Div) and norm(s.value.left) == dirvar
                     and _is_norm_call(s.value.right) is not None and norm(_is_norm_call(s.value.right)) == dirvar]
            okn = bool(units) and isinstance(rdef, ast.BinOp) and isinstance(rdef.op, ast.Mult) \
                and (norm(rdef.left) in units or norm(rdef.right) in units) \
                and any(isinstance(x, ast.Call) and "random" in norm(x.func) for x in ast.walk(rdef))
    ctx.ob(rule, g, rets[0] if rets else "result", okn,
           "the direction is normalised and multiplied by a random scalar (a scalar multiple stays perpendicular)",
           node=rets[0] if rets else g.node)
    # other updates of the direction only flip its sign / scale it
    for s in walk_no_nested(g.node):
        if isinstance(s, ast.AugAssign) and norm(s.target) == dirvar and not isinstance(s.op, (ast.Mult, ast.Div)):
            ctx.ob(rule, g, s, False, "the direction is only rescaled after the cross product -- `%s` changes its direction" % norm(s), node=s)
    # the caller passes its own working copy, index and bond table
    calls = [c for c in calls_in(f.node) if call_name(c) == g.name]
    from ..pat import single_defs as _sd74
    sdf_ = _sd74(f.node)

    def _is_work(a_):
        # the positions handed over: the parameter itself (rebound to its copy) or a local bound once to a copy of it
        if norm(a_) == f.params[0]:
            return True
        v_ = sdf_.get(a_.id) if isinstance(a_, ast.Name) else None
        return isinstance(v_, ast.Call) and call_name(v_) in ("copy", "array") and (
            (v_.args and norm(v_.args[0]) == f.params[0]) or (isinstance(v_.func, ast.Attribute) and norm(v_.func.value) == f.params[0]))
    okc = bool(calls) and len(calls[0].args) >= 3 and _is_work(calls[0].args[0]) and [norm(a) for a in calls[0].args[1:3]] == [f.params[1], f.params[2]]
    ctx.ob(rule, f, calls[0] if calls else "displacement draw", okc,
           "the displacement is drawn for the atom that is moved, from the current positions and the bond table",
           node=calls[0] if calls else f.node)
