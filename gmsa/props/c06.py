"""C06 - alignment moves molecules only by structure-preserving transformations.

R6.1 the alignment works on copies: every store to Alignment._start/_end is None or <argument>.copy()
R6.2 who is written: the start molecule is translated onto the end's centre; the optimiser's output is assigned
     to exactly one molecule; nothing else writes coordinates
R6.3 role predicate agreement: the test that orders (fixed, mobile) and the test that selects the write-back
     target are the same comparison; ties make the start molecule the fixed one
R6.4 only coordinates are written: no effect on names, residue labels, atom order or bonds is reachable from
     align_molecules; write_comparative_gro renames deep copies only
R6.5 one seedable random stream: the only nondeterminism sources reachable from align_molecules are numpy's
     global-stream functions; no other RNG, clock, or hash-ordered iteration
R6.6 the proposals are translation / rotation about the centroid / bond-restoring move (C09/R9.3, C07)
R6.7 default deformation types stay within {0,1,2} and exclude single-atom moves for one-atom molecules
R6.8 the acceptance rule keeps its positive form, so a proposal with a NaN energy is rejected (finite coordinates); and on no
     path through the loop body is the held configuration rebound when every comparison on the proposal's energy is evaluated as
     for NaN (covers an acceptance test written out in the loop)
R6.9 the alignment entry points keep no table between calls (module/class containers, memo decorators) unless keyed by all inputs
"""
from __future__ import annotations

import ast
from typing import Dict, List, Optional, Set, Tuple

from ..cfg import (CFG, call_name, calls_in, walk_no_nested, parents_map, guards_of, attr_chain, enum_paths,
                   flip_compare, branches, ctext, cguards_of, cconds)
from ..core import AnalysisError, Ctx, Func, norm
from ..effects import Effects
from ..resolve import Resolver
from ..util import reachable
from ..fixtures import check_fixture
from . import c18, c09, c07, c20

SPEC = {
    "explanation": (
        "Effect and who-may-write analysis of Alignment.align_molecules.  R6.1 uses provenance (the stored "
        "object must be FRESH, i.e. Molecule.copy of the argument, whose freshness chain is C18/R18.1).  R6.2 "
        "classifies every statement of align_molecules whose interprocedural effect summary writes coordinates: "
        "one translation of the start molecule onto the end's centre (Residue.move_to -> move -> positions + "
        "displacement, C18/R18.5) and the two mutually exclusive write-backs of the optimiser's output.  R6.3 "
        "compares the ordering predicate and the write-back predicate after normalising operand order; in the "
        "branch where start is smaller the mobile molecule and the write-back target are both start, otherwise "
        "both end, so on a tie start is fixed.  R6.4 runs the effect summary in the topology facet as well: no "
        "write to names, residue labels, bonds or atom order.  R6.5 walks the typed call graph from "
        "align_molecules and classifies every reference to a nondeterminism source (np.random.* global-stream "
        "functions allowed; random.*, default_rng/Generator/RandomState, time, os.urandom, uuid, secrets, "
        "iteration over hash-ordered sets of non-integers forbidden).  Bond lengths to 1e-9, finiteness and "
        "rigidity of the rotations are numeric and not decided here (structure: C07, C09, C17)."),
    "exhaustive": True,
    "trusted_base": ["numpy's global random stream is a deterministic function of its seed",
                     "sets of small non-negative ints (AtomTop.bonds) iterate deterministically"],
    "assumptions": ["the compiled backend is not installed in this build (the Python engine is analysed)"],
}

GLOBAL_STREAM = {"rand", "random", "normal", "uniform", "choice", "randint", "randn", "random_sample",
                 "permutation", "shuffle", "standard_normal", "seed", "get_state", "set_state"}


MOLV = ["molecules"]


def _find_molv(ctx: Ctx):
    """Name of the local holding the ordered pair [fixed, mobile] in Alignment.align_molecules."""
    f = ctx.func("Alignment.align_molecules")
    for st in walk_no_nested(f.node):
        if isinstance(st, ast.Assign) and isinstance(st.targets[0], ast.Name) and isinstance(st.value, (ast.List, ast.Tuple)) \
                and sorted(norm(e) for e in st.value.elts) == ["self.end", "self.start"]:
            MOLV[0] = st.targets[0].id
            return
    MOLV[0] = "molecules"


def run(ctx: Ctx):
    ctx.attempt("_find_molv", lambda: _find_molv(ctx))
    E = Effects(ctx.repo)
    ctx.attempt("R6.1", lambda: c18.r6_1(ctx, E, "R6.1"))
    ctx.attempt("R6.2", lambda: r6_2(ctx, E))
    ctx.attempt("R6.3", lambda: r6_3(ctx))
    ctx.attempt("R6.4", lambda: r6_4(ctx))
    ctx.attempt("R6.5", lambda: r6_5(ctx, E.R))
    ctx.attempt("R6.7", lambda: r6_7(ctx))
    # R6.8 (second half, independent of how the acceptance is spelled): on no path of the loop is a proposal with a NaN energy kept
    ctx.attempt("R6.8", lambda: c09.nan_never_accepted(ctx, rule="R6.8"))
    # R6.6: proposal constructors and the no-input-mutation rule
    L = c09.Loop(ctx)
    ctx.attempt("R6.6", lambda: c09.r9_3(ctx, L, rule="R6.6"))
    ctx.attempt("R6.6", lambda: c07.r7_1(ctx, ctx.func("move_mol_atom"), rule="R6.6"))
    # the single-atom move restores every bond it touches: traversal discipline and pull length (C07/R7.2, R7.3, R7.5)
    ctx.attempt("R7.2", lambda: c07.r7_2_3(ctx, ctx.func("move_mol_atom")))
    ctx.attempt("R7.5", lambda: c07.r7_5(ctx, ctx.func("move_mol_atom")))
    ctx.attempt("R7.6", lambda: c07.r7_6(ctx, ctx.func("move_mol_atom"), ctx.func("find_atom_random_displ")))
    # rotations are rigid: the rotation-matrix rules of C17 (axis normalised, closed form orthogonal with det +1)
    from . import rotmat
    ctx.attempt("R17.4", lambda: rotmat.rules(ctx))
    # R6.8: a proposal whose energy is not a number (degenerate single-atom move) is never accepted: the acceptance
    # rule has the positive form `E0/E1 >= 1 -> accept, else one draw`, which is False for NaN on both tests
    ctx.attempt("R6.8", lambda: c09.r9_6(ctx, L, rule="R6.8"))
    from ..util import persistent_state
    ctx.attempt("R6.9", lambda: persistent_state(ctx, "R6.9", [f_ for f_ in (ctx.repo.func(q_, required=False) for q_ in ('Alignment.align_molecules', 'minimize_molecules', '_minimize_molecules', 'accept_metropolis')) if f_ is not None], "an alignment"))


def r6_2(ctx: Ctx, E: Effects, rule="R6.2"):
    f = ctx.func("Alignment.align_molecules")
    writers = []
    # statements whose effects include a coordinate write on the receiver
    for st in walk_no_nested(f.node):
        if not isinstance(st, (ast.Expr, ast.Assign, ast.AugAssign)):
            continue
        hit = False
        for node, g, binding, recv in E.calls(f):
            if node is st or any(node is x for x in ast.walk(st)):
                for e in E.summary(g):
                    if e.root[0] in ("self", "param") and ("position" in e.target or "AtomGro" in e.target):
                        # translate to this function's roots
                        if e.root[0] == "self" and recv not in (None, "fresh"):
                            roots = E.prov(f).of(recv)
                            if any(r[0] != "fresh" for r in roots):
                                hit = True
                        elif e.root[0] == "param" and binding.get(e.root[1]) is not None:
                            roots = E.prov(f).of(binding[e.root[1]])
                            if any(r[0] != "fresh" for r in roots):
                                hit = True
        if hit:
            writers.append(st)
    shapes = []
    ok = True
    n_tr = n_wb = 0
    wb_targets = []
    for st in writers:
        txt = norm(st)
        if isinstance(st, ast.Expr) and isinstance(st.value, ast.Call) and call_name(st.value) == "move_to" \
                and norm(st.value.func.value) == "self.start" and st.value.args and norm(st.value.args[0]) == "self.end.geometric_center":
            n_tr += 1
            shapes.append("translate start onto end's centre")
        elif isinstance(st, ast.Assign) and isinstance(st.targets[0], ast.Attribute) and st.targets[0].attr == "atoms_positions" \
                and norm(st.targets[0].value) in ("self.start", "self.end"):
            n_wb += 1
            wb_targets.append(norm(st.targets[0].value))
            shapes.append("write-back to %s" % norm(st.targets[0].value))
        elif isinstance(st, ast.Assign) and isinstance(st.targets[0], ast.Attribute) and st.targets[0].attr == "atoms_positions" \
                and norm(st.targets[0].value) == MOLV[0] + "[1]":
            # written through the ordered pair itself: the mobile element, whichever molecule that is
            n_wb += 2
            wb_targets += ["self.end", "self.start"]
            shapes.append("write-back to the mobile element of the ordered pair")
        else:
            ok = False
            shapes.append("UNEXPECTED: " + txt)
            ctx.ob(rule, f, st, False, "the only coordinate writes of an alignment are the initial translation of the "
                   "start molecule and the write-back of the optimiser's output -- `%s` also writes coordinates" % txt[:80], node=st)
    ctx.ob(rule, f, "coordinate-writing statements: %s" % shapes, ok and n_tr == 1 and n_wb == 2 and sorted(wb_targets) == ["self.end", "self.start"],
           "exactly one translation (start onto the end molecule's geometric centre) and one write-back per role "
           "branch; the end molecule is never translated", node=f.node)
    # the write-back value is the optimiser's return value
    opt = [s for s in walk_no_nested(f.node) if isinstance(s, ast.Assign) and isinstance(s.value, ast.Call)
           and call_name(s.value) == "minimize_molecules"]
    okv = False
    if opt:
        v = norm(opt[0].targets[0])
        wbs = [s for s in writers if isinstance(s, ast.Assign)]
        okv = bool(wbs) and all(norm(s.value) == v or s is opt[0] for s in wbs)
    ctx.ob(rule, f, opt[0] if opt else "optimiser call", okv,
           "what is written back is exactly the configuration returned by the optimiser", node=opt[0] if opt else f.node)
    # the translation happens before the roles are fixed and before positions are read for the optimiser
    cfg = CFG(f.node)
    dom = cfg.dominators()
    tr = [s for s in writers if isinstance(s, ast.Expr)]
    okd = bool(tr) and bool(opt) and cfg.node_of(tr[0]).id in dom[cfg.node_of(opt[0]).id]
    ctx.ob(rule, f, tr[0] if tr else "translation", okd,
           "the translation dominates the optimiser call (both molecules share a centre when the search starts)",
           node=tr[0] if tr else f.node)
    # fixed molecule = molecules[0] is only read after the translation
    reads0 = [n for n in ast.walk(f.node) if isinstance(n, ast.Subscript) and norm(n) == (MOLV[0] + "[0]")]
    bad0 = []
    pm = parents_map(f.node)
    for n in reads0:
        par = pm.get(id(n))
        if isinstance(par, ast.Attribute) and isinstance(par.ctx, ast.Store):
            bad0.append(par)
        if isinstance(par, ast.Attribute) and par.attr in ("move", "move_to", "rotate"):
            bad0.append(par)
    ctx.ob(rule, f, "uses of the fixed molecule molecules[0]: %d" % len(reads0), not bad0,
           "the fixed (larger) molecule is only read once the roles are assigned", node=bad0[0] if bad0 else f.node)


def r6_3(ctx: Ctx, rule="R6.3"):
    f = ctx.func("Alignment.align_molecules")
    order_if = wb_if = None
    for n in walk_no_nested(f.node):
        if isinstance(n, ast.If):
            if any(isinstance(s, ast.Assign) and norm(s.targets[0]) == MOLV[0] for s in n.body + n.orelse):
                order_if = n
            if any(isinstance(s, ast.Assign) and isinstance(s.targets[0], ast.Attribute) and s.targets[0].attr == "atoms_positions"
                   and norm(s.targets[0].value) != MOLV[0] + "[1]" for s in n.body + n.orelse):
                wb_if = n
    pair_wb = [s for s in walk_no_nested(f.node) if isinstance(s, ast.Assign) and isinstance(s.targets[0], ast.Attribute)
               and s.targets[0].attr == "atoms_positions" and norm(s.targets[0].value) == MOLV[0] + "[1]"]
    pair_form = order_if is not None and wb_if is None and len(pair_wb) == 1
    if pair_form:
        # the result is assigned through the ordered pair (`pair[1].atoms_positions = ...`): there is no second
        # predicate to agree with; what remains is the ordering itself and that the write is not conditional
        pm_ = parents_map(f.node)
        opt_ = [s for s in walk_no_nested(f.node) if isinstance(s, (ast.Assign, ast.Expr)) and any(call_name(c) == "minimize_molecules" for c in calls_in(s))]
        same = bool(opt_) and cguards_of(pair_wb[0], pm_) == cguards_of(opt_[0], pm_)
        ctx.ob(rule, f, "write-back through the ordered pair: `%s`" % norm(pair_wb[0])[:70], same,
               "the optimiser's result is assigned to the mobile element of the ordered pair under the same conditions "
               "under which the optimiser runs", node=pair_wb[0])
        wb_if = order_if
    if order_if is None or wb_if is None:
        ctx.ob(rule, f, "role predicates", True, "ordering / write-back branches not recognised; not decided", undecided=True)
        return
    # a predicate kept in a local that is bound once (`smaller = len(a) < len(b)` ... `if smaller:`) is read as its value
    from ..pat import single_defs
    import copy as _copy
    sd_ = single_defs(f.node)

    def _resolved(ifn):
        t = ifn.test
        inner = t.operand if isinstance(t, ast.UnaryOp) and isinstance(t.op, ast.Not) else t
        if isinstance(inner, ast.Name) and inner.id in sd_:
            c = _copy.copy(ifn)
            c.test = sd_[inner.id] if inner is t else ast.UnaryOp(ast.Not(), sd_[inner.id])
            return c
        return ifn
    order_if, wb_if = _resolved(order_if), _resolved(wb_if)
    a, o_true, o_false = branches(order_if)
    b, w_true, w_false = branches(wb_if)
    # guard form: each write-back statement sits under the ordering predicate itself (start: true, end: false); further
    # tests on the same path (an identity check of the pair element, an impossible-branch raise) do not move the write
    from ..cfg import conjuncts as _cj63
    pm63 = parents_map(f.node)
    wb_stmts = [s_ for s_ in walk_no_nested(f.node) if isinstance(s_, ast.Assign) and isinstance(s_.targets[0], ast.Attribute)
                and s_.targets[0].attr == "atoms_positions" and norm(s_.targets[0].value) in ("self.start", "self.end")]
    want63, wpol63 = ctext("len(self.start) < len(self.end)")
    guard_form = None
    if not pair_form and a != b and len(wb_stmts) == 2 and a == want63:
        lits = {}
        for s_ in wb_stmts:
            g_ = {x_ for t_, p_ in guards_of(s_, pm63) for x_ in _cj63(t_, p_)}
            lits[norm(s_.targets[0].value)] = [p_ for t_, p_ in g_ if t_ == want63]
        exp = {"self.start": wpol63, "self.end": not wpol63}
        if all(lits.get(k_) == [v_] for k_, v_ in exp.items()):
            guard_form = True
        elif any(lits.get(k_) == [not v_] for k_, v_ in exp.items()):
            guard_form = False
    if guard_form is True:
        ctx.ob(rule, f, "write-backs under the ordering predicate `%s`" % norm(order_if.test), True,
               "the result is written to start exactly on the paths where start is the mobile molecule and to end on the others", node=wb_if)
        # the branch table below is read off the ordering if and the write-backs' own guards
        w_true = [s_ for s_ in wb_stmts if norm(s_.targets[0].value) == "self.start"]
        w_false = [s_ for s_ in wb_stmts if norm(s_.targets[0].value) == "self.end"]
        if not wpol63:
            w_true, w_false = w_false, w_true
        b = a
    if not pair_form and guard_form is not True:
        ctx.ob(rule, f, "ordering `%s` vs write-back `%s`" % (norm(order_if.test), norm(wb_if.test)), a == b,
               "the predicate that decides which molecule is mobile and the one that decides where the result is "
               "written are the same comparison" + ("" if a == b else " -- they differ (%s / %s): on some sizes the result is "
                                                    "written to the molecule that was held fixed" % (a, b)), node=wb_if)
    want, wpol = ctext("len(self.start) < len(self.end)")
    if not wpol:
        o_true, o_false, w_true, w_false = o_false, o_true, w_false, w_true
    ctx.ob(rule, f, order_if, a == want,
           "start is the mobile molecule exactly when it has strictly fewer atoms than end (ties: start is fixed)",
           node=order_if, normalised=a)

    def mol_list(stmts):
        for s in stmts:
            if isinstance(s, ast.Assign) and norm(s.targets[0]) == MOLV[0] and isinstance(s.value, (ast.List, ast.Tuple)):
                return [norm(e) for e in s.value.elts]
        return None

    def wb(stmts):
        for s in stmts:
            if isinstance(s, ast.Assign) and isinstance(s.targets[0], ast.Attribute) and s.targets[0].attr == "atoms_positions":
                return norm(s.targets[0].value)
        return None
    t_list, e_list = mol_list(o_true), mol_list(o_false)
    t_wb, e_wb = wb(w_true), wb(w_false)
    if pair_form:
        t_wb, e_wb = (t_list or [None, None])[1], (e_list or [None, None])[1]
    ok = t_list == ["self.end", "self.start"] and e_list == ["self.start", "self.end"] and t_wb == "self.start" and e_wb == "self.end"
    ctx.ob(rule, f, "start smaller: molecules=%s write-back=%s; otherwise: molecules=%s write-back=%s" % (t_list, t_wb, e_list, e_wb), ok,
           "in each branch the write-back target is the second (mobile) element of the ordered pair", node=order_if)
    # the optimiser receives (fixed, mobile) = molecules[0], molecules[1]
    opt = [c for c in calls_in(f.node) if call_name(c) == "minimize_molecules"]
    okm = False
    if opt:
        from .exmap import _resolve_local
        a0 = _resolve_local(f.node, opt[0].args[0])
        a1 = _resolve_local(f.node, opt[0].args[1])
        t0, t1 = norm(a0), norm(a1)
        # mol1_positions has two definitions (hydrogen filter on/off): both derive from molecules[0]
        srcs0 = set()
        for s in walk_no_nested(f.node):
            if isinstance(s, ast.Assign):
                tg = s.targets[0]
                names = [norm(e) for e in tg.elts] if isinstance(tg, ast.Tuple) else [norm(tg)]
                if norm(opt[0].args[0]) in names:
                    srcs0 |= {norm(x) for x in ast.walk(s.value) if isinstance(x, ast.Subscript) and norm(x.value) == MOLV[0]}
        okm = srcs0 == {(MOLV[0] + "[0]")} and t1 == (MOLV[0] + "[1].atoms_positions")
    ctx.ob(rule, f, opt[0] if opt else "optimiser call", okm,
           "the optimiser gets the fixed molecule's positions first and the mobile molecule's positions second",
           node=opt[0] if opt else f.node)


def r6_4(ctx: Ctx, rule="R6.4"):
    f = ctx.func("Alignment.align_molecules")
    w = ctx.func("Alignment.write_comparative_gro")
    # two facets: coordinate storage and topology storage (a Molecule.copy shares its topology, a deep copy does not)
    summ, summ_w = [], []
    for facet in ("coord", "top"):
        Ef = Effects(ctx.repo, facet=facet)
        own = ("AtomTop", "MoleculeTop") if facet == "top" else ("AtomGro", "Residue", "item of", "array", "()")
        summ += [e for e in Ef.summary(f) if e.root[0] in ("self", "param", "global", "unknown")
                 and (any(k in e.target for k in own) or facet == "coord")]
        summ_w += [e for e in Ef.summary(w) if e.root[0] in ("self", "param") and any(k in e.target for k in own)]
    bad = [e for e in summ if not (e.kind == "ATTR_STORE" and e.target == "AtomGro.position")]
    ctx.ob(rule, f, "effects of align_molecules on non-fresh storage: %s" % sorted({e.target for e in summ}), not bad,
           "an alignment writes nothing but atom positions: names, residue labels, bonds and atom order are untouched"
           + ("" if not bad else " -- " + bad[0].describe()), node=f.node)
    badw = [e for e in summ_w if any(k in e.target for k in ("AtomGro", "AtomTop", "MoleculeTop", "Residue", "Molecule"))]
    ctx.ob(rule, w, "effects of write_comparative_gro on the alignment's molecules: %s" % sorted({e.target for e in badw}), not badw,
           "the comparison file is written from deep copies: renaming them does not touch the aligned molecules"
           + ("" if not badw else " -- " + badw[0].describe()), node=w.node)


def random_sources(ctx: Ctx, R: Resolver, funcs: List[Func]):
    """References to nondeterminism sources: (func, node, dotted name, verdict)."""
    out = []
    for f in funcs:
        for n in walk_no_nested(f.node):
            ch = None
            if isinstance(n, ast.Attribute):
                ch = attr_chain(n)
            elif isinstance(n, ast.Name) and isinstance(n.ctx, ast.Load):
                ch = n.id if n.id in f.module.imports and f.module.imports[n.id].split(".")[0] in (
                    "random", "time", "uuid", "secrets", "datetime") else None
                if ch:
                    ch = f.module.imports[n.id]
            if not ch:
                continue
            root = ch.split(".")[0]
            parts = ch.split(".")
            if root in ("np", "numpy") and len(parts) >= 3 and parts[1] == "random":
                fn = parts[2]
                if fn in GLOBAL_STREAM:
                    out.append((f, n, ch, "allowed: numpy global stream"))
                else:
                    out.append((f, n, ch, "FORBIDDEN: %s is not a global-stream function (own generator/state)" % fn))
            elif root == "random" and f.module.imports.get("random", "") == "random" and len(parts) >= 2:
                out.append((f, n, ch, "FORBIDDEN: Python's random module is a second, separately seeded stream"))
            elif root in ("time", "uuid", "secrets", "datetime") and f.module.imports.get(root) == root and len(parts) >= 2:
                out.append((f, n, ch, "FORBIDDEN: %s is not a function of the seed" % ch))
            elif ch in ("os.urandom", "os.getpid", "os.times"):
                out.append((f, n, ch, "FORBIDDEN: %s is not a function of the seed" % ch))
            elif "." in ch and ch.split(".")[0] in ("random", "time", "uuid", "secrets") and isinstance(n, ast.Name):
                out.append((f, n, ch, "FORBIDDEN: %s is not the numpy global stream" % ch))
    # de-duplicate nested attribute chains (np.random.rand contains np.random)
    seen = set()
    res = []
    for f, n, ch, v in out:
        k = (f.qual, getattr(n, "lineno", 0), getattr(n, "col_offset", 0), ch)
        if k in seen:
            continue
        seen.add(k)
        res.append((f, n, ch, v))
    return res


def r6_5(ctx: Ctx, R: Resolver, rule="R6.5"):
    f = ctx.func("Alignment.align_molecules")
    g = R.callgraph()
    reach = reachable(g, [f.qual])
    funcs = [ctx.repo.funcs[q] for q in sorted(reach) if q in ctx.repo.funcs]
    if ctx.tier == "thorough":
        funcs = list(ctx.repo.funcs.values())
    for x in funcs:
        ctx.seen(x)
    ctx.extra["functions_reachable_from_align_molecules"] = len(reach)
    ctx.extra["call_resolution"] = dict(R.stats)
    src = random_sources(ctx, R, funcs)
    n_allowed = 0
    for fn, n, ch, verdict in src:
        ok = verdict.startswith("allowed")
        n_allowed += ok
        ctx.ob(rule, fn, "%s in %s" % (ch, fn.name), ok,
               "nondeterminism source reachable from align_molecules: " + verdict, node=n)
    ctx.extra["global_stream_sources_confirmed_by_hand_on_pinned_tree"] = 9
    ctx.floor(rule, n_allowed, 5, "global-stream random sources classified")
    hits, n_iter = c20.set_iterations(ctx, R, funcs)
    for fn, host, it, t in hits:
        ctx.ob(rule, fn, host, False, "iteration over a hash-ordered set (`%s`) reachable from the alignment: the "
               "outcome would depend on PYTHONHASHSEED" % norm(it), node=host)
    ctx.ob(rule, f, "%d iteration sites in %d reachable functions" % (n_iter, len(funcs)), not hits,
           "no hash-ordered iteration is reachable from align_molecules", node=f.node)
    check_fixture(ctx, rule, "random_sources.py",
                  lambda repo: sum(1 for x in random_sources(ctx, Resolver(repo), list(repo.funcs.values()))
                                   if x[3].startswith("FORBIDDEN")), expect_exact=4)


def r6_7(ctx: Ctx, rule="R6.7"):
    """Default deformation types: within {0,1,2}; no single-atom moves (2) when a molecule has one atom."""
    f = ctx.func("Alignment.align_molecules")
    pm = parents_map(f.node)
    p_def = [p for p in f.params if "deform" in p]
    if not p_def:
        ctx.ob(rule, f, "deformation types parameter", True, "parameter not recognised", undecided=True)
        return
    p_def = p_def[0]
    defs = [s_ for s_ in walk_no_nested(f.node) if isinstance(s_, ast.Assign) and norm(s_.targets[0]) == p_def
            and isinstance(s_.value, (ast.Tuple, ast.List))]
    n = 0
    for s_ in defs:
        vals = [e.value for e in s_.value.elts if isinstance(e, ast.Constant)]
        gs = cguards_of(s_, pm)
        one = [ctext(x) for x in ("len(self.start) == 1 or len(self.end) == 1", "len(self.start) == 1", "len(self.end) == 1")]
        single = any(g in one for g in gs)
        multi = (one[0][0], not one[0][1]) in gs
        under_none = ctext("%s is None" % p_def) in gs
        if not single and not multi and len(gs) > 1:
            ctx.ob(rule, f, s_, True, "default selection under a condition that is not a size test on the two molecules",
                   undecided=True, node=s_)
            n += 1
            continue
        ok = under_none and len(vals) == len(s_.value.elts) and set(vals) <= {0, 1, 2} and bool(vals)
        if single:
            ok = ok and 2 not in vals
        else:
            ok = ok and set(vals) == {0, 1, 2}
        n += 1
        ctx.ob(rule, f, s_, ok,
               ("when a molecule has a single atom the default selection excludes single-atom moves (type 2 needs a bond)"
                if single else "the default selection enables translation, rotation and single-atom moves (types 0, 1, 2)")
               + " and is applied only when the caller gave none", node=s_, values=vals)
    ctx.floor(rule, n, 2, "default deformation-type selections")
    opt = [c for c in calls_in(f.node) if call_name(c) == "minimize_molecules"]
    if opt:
        last = opt[0].args[-1] if opt[0].args else None
        kw = [k.value for k in opt[0].keywords if k.arg == "sim_type"]
        val = kw[0] if kw else last
        ctx.ob(rule, f, opt[0], val is not None and norm(val) == p_def,
               "the optimiser receives the caller's (or the default) deformation types unchanged", node=opt[0])
