"""gmsa: static analyser for gaddlemaps properties C01..C20 (stdlib only)."""
