"""Thorough tier = quick + widened scope (done inside the property modules when ctx.tier == 'thorough')
+ the mutation matrix: every catalogued variant of this property is analysed in a scratch copy and the
outcome (killed / survived / false alarm / not applicable) is written into the evidence.

The matrix tests the checker, not the repository: it never changes the verdict on /repo.  A breaking
variant that survives, or a preserving variant that raises an alarm, is listed under `checker_defects`.
"""
from __future__ import annotations

import os
import sys
import time
from concurrent.futures import ProcessPoolExecutor
from typing import Dict, List

from .variants import V


def _one(args):
    prop, idx, root = args
    os.environ["GMSA_REPO"] = root
    from .mutate import analyse_variant, VariantError
    v = [x for x in V if x["property"] == prop][idx]
    t0 = time.time()
    try:
        code, failed, out = analyse_variant(prop, [(v["file"], v["old"], v["new"])] + [tuple(x) for x in v.get("more", [])], tier="quick", base=root)
    except VariantError as exc:
        return {"desc": v["desc"], "kind": v["kind"], "outcome": "not applicable on this tree", "why": str(exc)[:120]}
    except Exception as exc:                      # analyser crash on a variant: report, never hide
        return {"desc": v["desc"], "kind": v["kind"], "outcome": "analyser error", "why": repr(exc)[:200]}
    rules = sorted({f["rule"] for f in failed})
    if v["kind"] == "B":
        outcome = "killed" if code == 1 else ("analysis-error" if code == 2 else "SURVIVED")
    else:
        outcome = "silent" if code == 0 else "FALSE ALARM"
    return {"desc": v["desc"], "kind": v["kind"], "file": v["file"], "outcome": outcome, "exit": code, "rules": rules,
            "first_report": (failed[0]["construct"][:100] if failed else ""), "wall_s": round(time.time() - t0, 2)}


def widen(ctx, mod) -> Dict:
    prop = ctx.prop
    mine = [x for x in V if x["property"] == prop]
    root = ctx.repo.root
    jobs = [(prop, i, root) for i in range(len(mine))]
    results: List[Dict] = []
    t0 = time.time()
    workers = min(16, max(1, len(jobs)))
    if jobs:
        with ProcessPoolExecutor(max_workers=workers) as ex:
            results = list(ex.map(_one, jobs))
    killed = sum(1 for r in results if r["outcome"] == "killed")
    nb = sum(1 for r in results if r["kind"] == "B" and r["outcome"] not in ("not applicable on this tree",))
    silent = sum(1 for r in results if r["outcome"] == "silent")
    npres = sum(1 for r in results if r["kind"] == "P" and r["outcome"] not in ("not applicable on this tree",))
    defects = [r for r in results if r["outcome"] in ("SURVIVED", "FALSE ALARM", "analysis-error", "analyser error")]
    for r in defects:
        print("MATRIX: %s variant '%s' -> %s" % (r["kind"], r["desc"], r["outcome"]))
    print("MATRIX %s: %d/%d breaking variants killed, %d/%d preserving variants silent, %d not applicable; %.1fs on %d workers"
          % (prop, killed, nb, silent, npres, sum(1 for r in results if r["outcome"].startswith("not applicable")),
             time.time() - t0, workers))
    # generic mutant survey over the functions this property's rules anchor in (exploration, not a verdict)
    survey = {}
    try:
        from .survey import survey_property
        targeted = [q for q in sorted(ctx.analysed_funcs)]
        if len(targeted) > 60:          # package-wide rules: keep to the functions named by obligations
            targeted = sorted({o.function for o in ctx.obligations if o.function})
        t1 = time.time()
        res, truncated = survey_property(prop, targeted, root=root)
        flagged = [r for r in res if r["fired"]]
        surv = [r for r in res if not r["fired"]]
        by_rule = {}
        for r in flagged:
            for rl in r["fired"][prop]["rules"]:
                by_rule[rl] = by_rule.get(rl, 0) + 1
        survey = {"functions": len(targeted), "mutants": len(res), "flagged": len(flagged), "survivors": len(surv),
                  "truncated": truncated, "flagged_by_rule": by_rule, "wall_s": round(time.time() - t1, 1),
                  "operators": ["comparison flip", "arithmetic operator swap", "integer constant + 1", "negated if/while test",
                                "first two call arguments swapped", "sorted -> list", "statement deletion", ".copy()/np.copy removal"],
                  "survivor_examples": ["%s: %s" % (r["function"].split("gaddlemaps.")[-1], r["mutant"]) for r in surv[:40]],
                  "note": "generic syntactic mutants are not classified as breaking or preserving: a survivor is either "
                          "equivalent / outside the property / caught by the test suite, or a missing rule - the list is "
                          "triaged by hand (DESIGN.md 10.6); it does not influence the verdict"}
        print("SURVEY %s: %d generic mutants in %d functions, %d flagged, %d survivors; %.1fs"
              % (prop, len(res), len(targeted), len(flagged), len(surv), time.time() - t1))
    except Exception as exc:                                   # the survey must never break a verdict
        survey = {"error": repr(exc)}
    return {"generic_mutant_survey": survey, "mutation_matrix": {"breaking_total": nb, "breaking_killed": killed, "preserving_total": npres,
                                "preserving_silent": silent, "variants": results, "checker_defects": defects,
                                "note": "variants are scratch copies of the current tree with one text edit each; "
                                        "they are parsed and analysed, never imported or executed; the matrix does "
                                        "not change the verdict on /repo"},
            "thorough_scope": "package-wide rules evaluated over every function of every module; effect summaries "
                              "to the whole-package fixpoint (depth bound %d)" % 6}
