"""Thorough tier: widened scope + mutation matrix (filled in later)."""


def widen(ctx, mod):
    return {}
