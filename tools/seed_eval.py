#!/venv/bin/python
"""Confirm a seeded change and run the checks against it.

usage: tools/seed_eval.py <property> <k> [--src /tmp/seed] [--as <k2>] [--skip-tests]
       (reads <src>/<property>/patch<k>.diff demo<k>.py meta<k>.json; writes seeded/<property>-<k2>)

1. in a scratch worktree of /repo (under /tmp, removed afterwards): demo on the clean tree (must exit 0),
   apply the patch, demo again (must exit non-zero), the 74 baseline tests with the patch (must all pass);
2. apply the patch to /repo itself, run all 20 quick checks, undo it straight afterwards;
3. write /verif/seeded/<property>-<k>/{patch.diff, demo.py, meta.json}.
"""
import json
import os
import shutil
import subprocess
import sys
import xml.etree.ElementTree as ET

VERIF = os.path.dirname(os.path.dirname(os.path.abspath(__file__)))
PY = "/venv/bin/python"


def sh(cmd, cwd=None, env=None, timeout=1800):
    e = dict(os.environ)
    if env:
        e.update(env)
    r = subprocess.run(cmd, shell=True, cwd=cwd, env=e, capture_output=True, text=True, timeout=timeout)
    return r.returncode, r.stdout + r.stderr


def main():
    prop, k = sys.argv[1], sys.argv[2]
    skip_tests = "--skip-tests" in sys.argv
    def opt(name, default):
        return sys.argv[sys.argv.index(name) + 1] if name in sys.argv else default
    src = os.path.join(opt("--src", "/tmp/seed"), prop)
    out_k = opt("--as", k)
    patch = os.path.join(src, "patch%s.diff" % k)
    demo = os.path.join(src, "demo%s.py" % k)
    meta_in = os.path.join(src, "meta%s.json" % k)
    if not (os.path.exists(patch) and os.path.exists(demo)):
        print("missing patch/demo for", prop, k)
        return 2
    agent_meta = {}
    if os.path.exists(meta_in):
        try:
            agent_meta = json.load(open(meta_in))
        except Exception:
            agent_meta = {"raw": open(meta_in).read()[:2000]}
    wt = "/tmp/sv_%s_%s" % (prop, k)
    sh("git -C /repo worktree remove --force %s" % wt)
    shutil.rmtree(wt, ignore_errors=True)
    rc, out = sh("git -C /repo worktree add -q --detach %s HEAD" % wt)
    ran = []
    result = {"property": prop, "k": k}
    try:
        env = {"PYTHONPATH": wt, "PYTHONHASHSEED": os.environ.get("PYTHONHASHSEED", "0")}
        shutil.copy(demo, os.path.join(wt, "_demo.py"))
        c0, o0 = sh("%s _demo.py" % PY, cwd=wt, env=env, timeout=600)
        ran.append("clean tree: PYTHONPATH=<worktree> python demo.py -> exit %d" % c0)
        ca, oa = sh("git apply %s" % patch, cwd=wt)
        if ca != 0:
            result["error"] = "patch does not apply: " + oa[-300:]
            print(json.dumps(result))
            return 1
        c1, o1 = sh("%s _demo.py" % PY, cwd=wt, env=env, timeout=600)
        ran.append("patched tree: python demo.py -> exit %d" % c1)
        result["demo_exit_clean"], result["demo_exit_patched"] = c0, c1
        result["demo_tail_patched"] = o1[-400:]
        os.remove(os.path.join(wt, "_demo.py"))
        npass = None
        if not skip_tests:
            junit = "/tmp/sv_%s_%s.xml" % (prop, k)
            ct, ot = sh("%s -m pytest -q -p no:cacheprovider --timeout=900 --continue-on-collection-errors -n 8 --junitxml=%s" % (PY, junit),
                        cwd=wt, env=env, timeout=3000)
            base = set(json.load(open("/root/.vp/BASELINE.json"))["stable_pass"])
            passed = set()
            try:
                for tc in ET.parse(junit).getroot().iter("testcase"):
                    if not any(c.tag in ("failure", "error", "skipped") for c in tc):
                        passed.add(tc.get("classname") + "::" + tc.get("name"))
            except Exception as exc:
                result["junit_error"] = repr(exc)
            missing = sorted(base - passed)
            npass = len(base & passed)
            result["baseline_tests_passing_with_patch"] = npass
            result["baseline_tests_broken_by_patch"] = missing
            ran.append("patched tree: full pytest suite -> %d of 74 baseline tests pass" % npass)
            try:
                os.remove(junit)
            except OSError:
                pass
        # the checks analyse source text only: run them on the patched scratch worktree (root override, nothing
        # written), which is the same tree as `git -C /repo apply patch.diff` would give, without disturbing /repo
        fired = {}
        for i in range(1, 21):
            p = "C%02d" % i
            c, o = sh("./check %s --tier quick --root %s --no-write" % (p, wt), cwd=VERIF)
            if c != 0:
                rules = sorted({ln.split("[")[1].split("]")[0] for ln in o.splitlines() if ": [" in ln and "] " in ln})
                fired[p] = {"exit": c, "rules": rules,
                            "first": next((ln[:300] for ln in o.splitlines() if ": [" in ln), "")}
        ran.append("all 20 quick checks on the patched tree (./check Cxx --tier quick --root <patched worktree of /repo HEAD> --no-write)")
    finally:
        sh("git -C /repo worktree remove --force %s" % wt)
        shutil.rmtree(wt, ignore_errors=True)
    result["checks_fired"] = fired
    result["caught_by_target_property"] = prop in fired and fired[prop]["exit"] == 1
    result["caught_by_any"] = any(v["exit"] == 1 for v in fired.values())
    valid = result.get("demo_exit_clean") == 0 and result.get("demo_exit_patched", 0) != 0 and \
        (skip_tests or not result.get("baseline_tests_broken_by_patch"))
    result["valid_seed"] = bool(valid)
    print(json.dumps({k_: v for k_, v in result.items() if k_ != "demo_tail_patched"}, indent=1))
    if valid:
        dst = os.path.join(VERIF, "seeded", "%s-%s" % (prop, out_k))
        prev_first = None
        if os.path.exists(os.path.join(dst, "meta.json")):
            prev_first = json.load(open(os.path.join(dst, "meta.json"))).get("first_evaluation")
        os.makedirs(dst, exist_ok=True)
        shutil.copy(patch, os.path.join(dst, "patch.diff"))
        shutil.copy(demo, os.path.join(dst, "demo.py"))
        meta = {"breaks_property": prop,
                "summary": agent_meta.get("summary", ""),
                "needs_to_manifest": agent_meta.get("needs", ""),
                "produced_by": "independent sub-agent given only the property text and a scratch worktree",
                "what_was_run": ran,
                "demo_exit_clean": result.get("demo_exit_clean"), "demo_exit_patched": result.get("demo_exit_patched"),
                "baseline_tests_passing_with_patch": result.get("baseline_tests_passing_with_patch"),
                "checks_fired": fired,
                "first_evaluation": ("caught by the target property" if result["caught_by_target_property"] else
                                     ("caught by another property only" if result["caught_by_any"] else "missed by every check")),
                "caught_by_target_property": result["caught_by_target_property"],
                "caught_by_any": result["caught_by_any"]}
        if prev_first:
            meta["first_evaluation"] = prev_first
        json.dump(meta, open(os.path.join(dst, "meta.json"), "w"), indent=1)
    return 0


if __name__ == "__main__":
    sys.exit(main())
