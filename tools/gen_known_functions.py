#!/venv/bin/python
"""Regenerate gmsa/known_functions.json: the functions (module:qualified name) of the reference tree, each with a
fingerprint (parameter names, identifiers used) that is only used to recognise a *renamed* function.  Functions that
are not in this table and are not renames are helpers introduced later; the loader splices their bodies into their
callers (gmsa/inline.py)."""
import ast, json, os, sys
sys.path.insert(0, os.path.dirname(os.path.dirname(os.path.abspath(__file__))))
from gmsa.inline import fingerprint, digest
root = sys.argv[1] if len(sys.argv) > 1 else "/repo"
out = {}
dig = {}
consts = []
backing_reads = []
for dp, dn, fn in os.walk(os.path.join(root, "gaddlemaps")):
    dn[:] = sorted(d for d in dn if d not in ("__pycache__", "data"))
    for f in sorted(fn):
        if not f.endswith(".py"):
            continue
        p = os.path.join(dp, f)
        rel = os.path.relpath(p, root)[:-3].replace(os.sep, ".")
        if rel.endswith(".__init__"):
            rel = rel[:-9]
        tree = ast.parse(open(p).read())
        for st in tree.body:
            if isinstance(st, (ast.Assign, ast.AnnAssign)):
                for t in (st.targets if isinstance(st, ast.Assign) else [st.target]):
                    if isinstance(t, ast.Name):
                        consts.append("%s:%s" % (rel, t.id))
            if isinstance(st, ast.ClassDef):
                # private attributes read outside a property of their own name (self._x read in a method other than `x`)
                for s2 in st.body:
                    if isinstance(s2, (ast.FunctionDef, ast.AsyncFunctionDef)):
                        for x in ast.walk(s2):
                            if isinstance(x, ast.Attribute) and isinstance(x.ctx, ast.Load) and isinstance(x.value, ast.Name) and x.value.id == "self" \
                                    and x.attr.startswith("_") and x.attr[1:] != s2.name:
                                backing_reads.append("%s:%s.%s" % (rel, st.name, x.attr))
                for s2 in st.body:
                    if isinstance(s2, (ast.Assign, ast.AnnAssign)):
                        for t in (s2.targets if isinstance(s2, ast.Assign) else [s2.target]):
                            if isinstance(t, ast.Name):
                                consts.append("%s:%s.%s" % (rel, st.name, t.id))
            if isinstance(st, (ast.FunctionDef, ast.AsyncFunctionDef)):
                out.setdefault("%s:%s" % (rel, st.name), fingerprint(st))
                dig.setdefault("%s:%s" % (rel, st.name), []).append(digest(st))
            elif isinstance(st, ast.ClassDef):
                for s2 in st.body:
                    if isinstance(s2, (ast.FunctionDef, ast.AsyncFunctionDef)):
                        k = "%s:%s.%s" % (rel, st.name, s2.name)
                        dig.setdefault(k, []).append(digest(s2))
                        if k in out:       # property getter + setter share a name: merge
                            out[k]["idents"] = sorted(set(out[k]["idents"]) | set(fingerprint(s2)["idents"]))
                        else:
                            out[k] = fingerprint(s2)
json.dump({"comment": "functions of the reference tree; see gmsa/inline.py", "functions": sorted(out), "fingerprints": out, "digests": dig, "constants": sorted(consts), "backing_reads": sorted(set(backing_reads))},
          open(os.path.join(os.path.dirname(os.path.dirname(os.path.abspath(__file__))), "gmsa", "known_functions.json"), "w"), indent=0, sort_keys=True)
print(len(out), "functions")
