#!/venv/bin/python
"""Regenerate /verif/MANIFEST.json from the property modules (SPEC + docstring)."""
import importlib
import json
import os
import sys

sys.path.insert(0, os.path.dirname(os.path.dirname(os.path.abspath(__file__))))
PROPS = ["C%02d" % i for i in range(1, 21)]
NOT_YET = "check not implemented yet (build in progress)"

checks, na, served = [], [], []
for p in PROPS:
    try:
        m = importlib.import_module("gmsa.props.%s" % p.lower())
    except ModuleNotFoundError:
        na.append({"property_id": p, "reason": NOT_YET})
        continue
    spec = m.SPEC
    if spec.get("explanation", "draft") == "draft":
        na.append({"property_id": p, "reason": NOT_YET})
        continue
    served.append(p)
    doc = (m.__doc__ or "").strip()
    checks.append({
        "property_id": p,
        "quick_cmd": "./check %s --tier quick" % p,
        "thorough_cmd": "./check %s --tier thorough" % p,
        "evidence_file": "/verif/evidence/%s.json" % p,
        "replay_cmd_template": "./check %s --tier quick --replay {path}" % p,
        "engine": "gmsa",
        "level_claimed": {
            "category": "other",
            "text": spec.get("level_text") or (
                "Static analysis of the current /repo source: every structural clause listed below is "
                "established on every path / call site of the anchored code, or reported with file:line and "
                "the construct.  " + doc),
            "design_ref": "DESIGN.md section 5, %s" % p,
        },
        "level_note": "Trusted base: " + "; ".join(spec.get("trusted_base", [])) +
                      ".  Assumptions: " + ("; ".join(spec.get("assumptions", [])) or "none") +
                      ".  The analyser itself (hand-written, stdlib ast) is trusted; clauses listed as not "
                      "decided in DESIGN.md are not claimed.",
        "technique": spec.get("technique", "custom AST/CFG static analysis (dominance, reaching definitions, "
                                          "typed call graph, small abstract domains)"),
    })

manifest = {
    "version": 1,
    "setup_cmd": "/venv/bin/python -m compileall -q gmsa",
    "hooks": {"guard": "GADDLEMAPS_VERIF",
              "enable": "none: static analysis needs no instrumentation; the guard is unused and /repo carries no hook code",
              "baseline_off_cmd": "cd /repo && /venv/bin/python -m pytest -ra -q -p no:cacheprovider --timeout=900 --continue-on-collection-errors",
              "source_commits": [], "add_only": True},
    "engines": [{"name": "gmsa", "path": "/verif/gmsa", "serves_properties": served,
                 "kind_free_text": "stdlib-only static analyser written for gaddlemaps: ast loader, annotation-driven "
                                   "type resolver and call graph, statement CFG with dominators and reaching "
                                   "definitions, structural path enumeration, vector/matrix-power/interval/"
                                   "abstract-string domains, polynomial normalisation; nothing from gaddlemaps is "
                                   "imported or executed"}],
    "checks": checks,
    "not_applicable": na,
    "notes": "All checks inspect /repo's working tree on every run (GMSA_REPO overrides the root for scratch "
             "variants).  Exit 0 = every obligation discharged (or only listed known findings), exit 1 = VIOLATION "
             "line(s) with a replay file naming file:line, rule and construct, exit 2 = ANALYSIS-ERROR (anchor "
             "vanished, unparsable file, floor of matched sites not met).  Repaired defects are recorded as "
             "'fixed' in known_findings.json and suppress nothing.  Verdicts are three-valued per obligation: discharged, "
             "refuted (VIOLATION) and NOT-DECIDED (printed, exit 0): a construct written in a spelling the rule does not "
             "model is reported as not decided on that tree, never as a violation (DESIGN.md 10.10).  Before any rule runs the "
             "loader brings the source into a canonical form (helpers absent from the reference tree spliced into their "
             "callers, renamed functions given their reference name back, guard clauses nested, single-use temporaries "
             "substituted, numpy/dict/tuple idioms in one spelling); the passes are exact rewrites listed in DESIGN.md 10.11.",
}
if not na:
    del manifest["not_applicable"]
with open(os.path.join(os.path.dirname(os.path.dirname(os.path.abspath(__file__))), "MANIFEST.json"), "w") as fh:
    json.dump(manifest, fh, indent=1)
print("claimed:", served)
print("not applicable:", [x["property_id"] for x in na])
