#!/venv/bin/python
"""Print the canonicalised (as the rules see it) source of functions: tools/show_canon.py <root> <qualname-suffix> ..."""
import ast, os, sys
sys.path.insert(0, os.path.dirname(os.path.dirname(os.path.abspath(__file__))))
from gmsa.core import Repo
r = Repo(sys.argv[1])
print("inlined:", r.inlined)
for suf in sys.argv[2:]:
    for q, f in r.funcs.items():
        if q.endswith(suf):
            print("#", q); print(ast.unparse(f.node)); print()
