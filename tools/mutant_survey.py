#!/venv/bin/python
"""Whole-package generic mutant survey (see gmsa/survey.py).  usage: tools/mutant_survey.py [--out f] [--jobs n] [--only C09,C07]"""
import os, sys
sys.path.insert(0, os.path.dirname(os.path.dirname(os.path.abspath(__file__))))
from gmsa.survey import main
main()
