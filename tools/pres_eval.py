#!/venv/bin/python
"""Confirm a behaviour-preserving refactor (from an independent sub-agent) and run the checks against it.

usage: tools/pres_eval.py <group> <k> [--src /tmp/pres] [--skip-tests]
       (reads <src>/<group>/patch<k>.diff note<k>.txt; writes preserving/<group>-<k>/)

1. scratch worktree of /repo HEAD under /tmp (removed afterwards): apply the patch, run the baseline tests
   (every baseline test must still pass - otherwise the refactor is not behaviour-preserving and is rejected);
2. all 20 quick checks on the patched tree (--root, nothing written): every check must exit 0;
   any VIOLATION / ANALYSIS-ERROR is a FALSE ALARM of the checker to be triaged by hand;
3. write /verif/preserving/<group>-<k>/{patch.diff, note.txt, meta.json}.
"""
import json
import os
import shutil
import subprocess
import sys
import xml.etree.ElementTree as ET

VERIF = os.path.dirname(os.path.dirname(os.path.abspath(__file__)))
PY = "/venv/bin/python"


def sh(cmd, cwd=None, env=None, timeout=3000):
    e = dict(os.environ)
    if env:
        e.update(env)
    r = subprocess.run(cmd, shell=True, cwd=cwd, env=e, capture_output=True, text=True, timeout=timeout)
    return r.returncode, r.stdout + r.stderr


def run_checks(root):
    fired = {}
    for i in range(1, 21):
        p = "C%02d" % i
        c, o = sh("./check %s --tier quick --root %s --no-write" % (p, root), cwd=VERIF)
        nd = [ln[:300] for ln in o.splitlines() if "NOT-DECIDED" in ln]
        if c != 0 or nd:
            rules = sorted({ln.split("[")[1].split("]")[0] for ln in o.splitlines() if ": [" in ln and "] " in ln})
            fired[p] = {"exit": c, "rules": rules, "not_decided": nd[:5],
                        "lines": [ln[:400] for ln in o.splitlines() if ": [" in ln or "ANALYSIS-ERROR" in ln][:8]}
    return fired


def main():
    grp, k = sys.argv[1], sys.argv[2]
    skip_tests = "--skip-tests" in sys.argv
    src = os.path.join(sys.argv[sys.argv.index("--src") + 1] if "--src" in sys.argv else "/tmp/pres", grp)
    patch = os.path.join(src, "patch%s.diff" % k)
    note = os.path.join(src, "note%s.txt" % k)
    if not os.path.exists(patch):
        print("missing", patch)
        return 2
    wt = "/tmp/pv_%s_%s" % (grp, k)
    sh("git -C /repo worktree remove --force %s" % wt)
    shutil.rmtree(wt, ignore_errors=True)
    sh("git -C /repo worktree add -q --detach %s HEAD" % wt)
    res = {"group": grp, "k": k}
    try:
        ca, oa = sh("git apply %s" % patch, cwd=wt)
        if ca != 0:
            print(json.dumps({"error": "patch does not apply: " + oa[-300:]}))
            return 1
        if not skip_tests:
            junit = "/tmp/pv_%s_%s.xml" % (grp, k)
            sh("%s -m pytest -q -p no:cacheprovider --timeout=900 --continue-on-collection-errors -n 6 --junitxml=%s" % (PY, junit),
               cwd=wt, env={"PYTHONPATH": wt})
            base = set(json.load(open("/root/.vp/BASELINE.json"))["stable_pass"])
            passed = set()
            for tc in ET.parse(junit).getroot().iter("testcase"):
                if not any(c.tag in ("failure", "error", "skipped") for c in tc):
                    passed.add(tc.get("classname") + "::" + tc.get("name"))
            os.remove(junit)
            res["baseline_tests_broken"] = sorted(base - passed)
        res["checks_fired"] = run_checks(wt)
    finally:
        sh("git -C /repo worktree remove --force %s" % wt)
        shutil.rmtree(wt, ignore_errors=True)
    res["silent"] = not res["checks_fired"]
    print(json.dumps(res, indent=1))
    if res.get("baseline_tests_broken"):
        print("REJECTED: breaks baseline tests")
        return 1
    dst = os.path.join(VERIF, "preserving", "%s-%s" % (grp, k))
    os.makedirs(dst, exist_ok=True)
    shutil.copy(patch, os.path.join(dst, "patch.diff"))
    if os.path.exists(note):
        shutil.copy(note, os.path.join(dst, "note.txt"))
    first = None
    if os.path.exists(os.path.join(dst, "meta.json")):
        first = json.load(open(os.path.join(dst, "meta.json"))).get("first_evaluation")
    meta = {"kind": "behaviour-preserving refactor by an independent sub-agent (given the property texts and a scratch worktree only)",
            "first_evaluation": first or ("silent" if res["silent"] else {p: v["rules"] or ["exit %d" % v["exit"]] for p, v in res["checks_fired"].items()}),
            "checks_fired_now": res["checks_fired"], "silent_now": res["silent"]}
    json.dump(meta, open(os.path.join(dst, "meta.json"), "w"), indent=1)
    return 0


if __name__ == "__main__":
    sys.exit(main())
