#!/venv/bin/python
"""Markdown table of the kept behaviour-preserving refactors (from preserving/*/meta.json) -> preserving/SUMMARY.md"""
import glob, json, os
root = os.path.dirname(os.path.dirname(os.path.abspath(__file__)))
rows = []
n = silent = exit0 = 0
for d in sorted(glob.glob(os.path.join(root, "preserving", "*", "")), key=lambda x: (x.split("/")[-2].split("-")[0][1:].zfill(2), x)):
    mp = os.path.join(d, "meta.json")
    if not os.path.exists(mp):
        continue
    m = json.load(open(mp))
    sid = os.path.basename(os.path.dirname(d))
    note = ""
    np_ = os.path.join(d, "note.txt")
    if os.path.exists(np_):
        note = " ".join(open(np_).read().split())[:160].replace("|", "/")
    now = m.get("checks_fired_now", {})
    nonzero = {p: v for p, v in now.items() if v.get("exit")}
    nd = {p: len(v.get("not_decided", [])) for p, v in now.items() if v.get("not_decided")}
    n += 1
    silent += 0 if now else 1
    exit0 += 0 if nonzero else 1
    first = m.get("first_evaluation")
    first_txt = first if isinstance(first, str) else ", ".join("%s %s" % (p, "/".join(r)) for p, r in sorted(first.items()))
    rows.append("| %s | %s | %s | %s | %s |" % (sid, note, first_txt, "exit 0" if not nonzero else ", ".join("%s exit %d %s" % (p, v["exit"], "/".join(v["rules"])) for p, v in sorted(nonzero.items())),
                                             ", ".join("%s: %d" % kv for kv in sorted(nd.items())) or "-"))
out = ["# Behaviour-preserving refactors (independent sub-agents) against the 20 checks", "",
       "%d refactors; all checks exit 0 on %d of them; completely silent (no NOT-DECIDED note either) on %d." % (n, exit0, silent), "",
       "| id | refactor (agent's note, shortened) | first evaluation (alarms) | now | NOT-DECIDED notes now |", "|----|----|----|----|----|"] + rows
open(os.path.join(root, "preserving", "SUMMARY.md"), "w").write("\n".join(out) + "\n")
print(out[2])
