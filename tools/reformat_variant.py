#!/venv/bin/python
"""Behaviour-preserving whole-tree variant: every module re-emitted with ast.unparse (drops comments,
normalises quotes/parentheses/line breaks).  All checks must stay silent on it."""
import ast, os, shutil, sys, tempfile, subprocess
sys.path.insert(0, os.path.dirname(os.path.dirname(os.path.abspath(__file__))))
tmp = tempfile.mkdtemp(prefix="gmsa-fmt-")
try:
    shutil.copytree("/repo/gaddlemaps", os.path.join(tmp, "gaddlemaps"), ignore=shutil.ignore_patterns("__pycache__", "data"))
    for dp, dn, fn in os.walk(os.path.join(tmp, "gaddlemaps")):
        for f in fn:
            if f.endswith(".py"):
                p = os.path.join(dp, f)
                src = open(p).read()
                open(p, "w").write(ast.unparse(ast.parse(src)) + "\n")
    bad = 0
    for i in range(1, 21):
        prop = "C%02d" % i
        r = subprocess.run(["/venv/bin/python", "-B", "-c",
                            "import sys; sys.path.insert(0,'/verif'); from gmsa.__main__ import run_property; "
                            "from gmsa.core import AnalysisError\n"
                            "try:\n c,ctx=run_property('%s','quick',root='%s',write=False)\nexcept AnalysisError as e:\n print('ANALYSIS-ERROR',e); c=2\n"
                            "sys.exit(c)" % (prop, tmp)], capture_output=True, text=True)
        print(prop, "exit", r.returncode)
        if r.returncode:
            bad += 1
            print("\n".join(l[:240] for l in r.stdout.splitlines() if "VIOLATION" not in l)[:3000])
    print("alarms on the reformatted tree:", bad)
finally:
    shutil.rmtree(tmp, ignore_errors=True)
