#!/bin/bash
# Re-run the 20 quick checks (analysis only) against every kept behaviour-preserving refactor: preserving/<id>/patch.diff.
# usage: tools/pres_recheck.sh [id ...]   prints one line per refactor: SILENT or the checks that exit non-zero / left notes
cd "$(dirname "$0")/.."
ids=("$@"); [ ${#ids[@]} -eq 0 ] && ids=($(ls preserving | grep -v SUMMARY))
for id in "${ids[@]}"; do
  [ -f preserving/$id/patch.diff ] || continue
  d=$(mktemp -d /tmp/gmsa-pres-XXXXXX); cp -r /repo/gaddlemaps $d/; rm -rf $d/gaddlemaps/data
  (cd $d && git apply --unsafe-paths /verif/preserving/$id/patch.diff 2>&1 | head -2)
  res=""
  for i in $(seq -w 1 20); do out=$(./check C$i --root $d --no-write 2>&1); rc=$?; nd=$(echo "$out" | grep -c NOT-DECIDED); if [ $rc -ne 0 ] || [ $nd -ne 0 ]; then rules=$(echo "$out" | grep -o '\[R[0-9P.a-z]*\]' | sort -u | tr -d '\n'); res="$res C$i(exit$rc nd$nd $rules)"; fi; done
  echo "$id ${res:-SILENT}"
  rm -rf $d
done
