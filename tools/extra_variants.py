#!/venv/bin/python
"""Further behaviour-preserving whole-tree variants.  All 20 checks must stay silent on each.

  --mode=tempret : `return <expr>` (expr not a bare name/constant) -> `_ret = <expr>; return _ret`
  --mode=logins  : a `logging.getLogger(__name__).debug(...)` statement is inserted at the top of every function
                   body (after the docstring) and a module-level `import logging`
  --mode=elifnest: `if a: A elif b: B else: C` -> `if a: A else: (if b: B else: C)` is what the AST already is;
                   here every elif-chain link is wrapped so that ast.unparse emits nested `else:\n if`, by
                   appending a `pass` to the else block
  --mode=kwargs  : every call of a package function/method whose callee is found by name uniquely in the package
                   and whose positional arguments are plain (no *args) gets its 2nd.. positional arguments
                   rewritten as keyword arguments (first kept positional)
  --mode=assertins: `assert True` and a no-op docstring-like expression statement inserted after the first statement
                   of every loop body
  --mode=hoistcond: `if <test>:` with a non-trivial test -> `_c = <test>; if _c:` (only for plain `if` statements that
                   are not elif links and whose test has no walrus)
"""
import ast, os, shutil, sys, tempfile, subprocess

MODE = "tempret"
for a in sys.argv[1:]:
    if a.startswith("--mode="):
        MODE = a.split("=", 1)[1]
VERIF = os.path.dirname(os.path.dirname(os.path.abspath(__file__)))


class TempRet(ast.NodeTransformer):
    def _fix(self, body):
        out = []
        for s in body:
            if isinstance(s, ast.Return) and s.value is not None and not isinstance(s.value, (ast.Name, ast.Constant)):
                out.append(ast.Assign([ast.Name("_ret", ast.Store())], s.value))
                out.append(ast.Return(ast.Name("_ret", ast.Load())))
            else:
                out.append(s)
        return out

    def generic_visit(self, node):
        super().generic_visit(node)
        for fld in ("body", "orelse", "finalbody"):
            b = getattr(node, fld, None)
            if isinstance(b, list) and b and isinstance(b[0], ast.stmt):
                setattr(node, fld, self._fix(b))
        if isinstance(node, ast.Try):
            for h in node.handlers:
                h.body = self._fix(h.body)
        return node


class LogIns(ast.NodeTransformer):
    def visit_FunctionDef(self, node):
        self.generic_visit(node)
        stmt = ast.parse("logging.getLogger(__name__).debug('enter %s', %r)" % ("%s", node.name)).body[0]
        i = 1 if (node.body and isinstance(node.body[0], ast.Expr) and isinstance(node.body[0].value, ast.Constant)
                  and isinstance(node.body[0].value.value, str)) else 0
        node.body.insert(i, stmt)
        return node


class ElifNest(ast.NodeTransformer):
    def visit_If(self, node):
        self.generic_visit(node)
        if len(node.orelse) == 1 and isinstance(node.orelse[0], ast.If):
            node.orelse = [node.orelse[0], ast.Pass()]
        return node


class AssertIns(ast.NodeTransformer):
    def _loop(self, node):
        self.generic_visit(node)
        node.body = node.body[:1] + [ast.Assert(ast.Constant(True), None), ast.Expr(ast.Constant("loop body"))] + node.body[1:]
        return node
    visit_For = _loop
    visit_While = _loop


class HoistCond(ast.NodeTransformer):
    def _fix(self, body):
        out = []
        for s in body:
            if isinstance(s, ast.If) and not isinstance(s.test, (ast.Name, ast.Constant)) \
                    and not any(isinstance(x, ast.NamedExpr) for x in ast.walk(s.test)):
                out.append(ast.Assign([ast.Name("_c", ast.Store())], s.test))
                s.test = ast.Name("_c", ast.Load())
            out.append(s)
        return out

    def generic_visit(self, node):
        super().generic_visit(node)
        for fld in ("body", "orelse", "finalbody"):
            b = getattr(node, fld, None)
            if isinstance(b, list) and b and isinstance(b[0], ast.stmt):
                if fld == "orelse" and isinstance(node, ast.If) and len(b) == 1 and isinstance(b[0], ast.If):
                    continue            # an elif link: hoisting would evaluate its test too early
                setattr(node, fld, self._fix(b))
        if isinstance(node, ast.Try):
            for h in node.handlers:
                h.body = self._fix(h.body)
        return node


def collect_defs(trees):
    """name -> [FunctionDef] over the package (methods and functions), for unique-by-name resolution"""
    d = {}
    for t in trees.values():
        for n in ast.walk(t):
            if isinstance(n, ast.FunctionDef):
                d.setdefault(n.name, []).append(n)
    return d


class KwArgs(ast.NodeTransformer):
    def __init__(self, defs):
        self.defs = defs

    def visit_Call(self, node):
        self.generic_visit(node)
        if isinstance(node.func, ast.Attribute):
            name, is_method = node.func.attr, True
        elif isinstance(node.func, ast.Name):
            name, is_method = node.func.id, False
        else:
            return node
        ds = self.defs.get(name, [])
        if len(ds) != 1 or name.startswith("__"):
            return node
        d = ds[0]
        if any(isinstance(a, ast.Starred) for a in node.args) or d.args.vararg or d.args.posonlyargs:
            return node
        if any(isinstance(x, ast.Name) and x.id in ("property", "staticmethod", "classmethod") or
               isinstance(x, ast.Attribute) for x in d.decorator_list):
            return node
        params = [a.arg for a in d.args.args]
        if params and params[0] in ("self", "cls"):
            if not is_method:
                return node
            params = params[1:]
        elif is_method:
            # module.function(...) or a callable attribute: positional binding is by the plain parameter list
            pass
        if len(node.args) > len(params) or len(node.args) < 2:
            return node
        have = {k.arg for k in node.keywords}
        new_kw = []
        for i in range(1, len(node.args)):
            if params[i] in have:
                return node
            new_kw.append(ast.keyword(params[i], node.args[i]))
        node.args = node.args[:1]
        node.keywords = new_kw + node.keywords
        return node


def main():
    tmp = tempfile.mkdtemp(prefix="gmsa-xv-")
    try:
        shutil.copytree("/repo/gaddlemaps", os.path.join(tmp, "gaddlemaps"), ignore=shutil.ignore_patterns("__pycache__", "data"))
        files = [os.path.join(dp, f) for dp, dn, fn in os.walk(os.path.join(tmp, "gaddlemaps")) for f in fn if f.endswith(".py")]
        trees = {p: ast.parse(open(p).read()) for p in files}
        defs = collect_defs(trees)
        for p, tree in trees.items():
            if MODE == "tempret":
                tree = TempRet().visit(tree)
            elif MODE == "logins":
                tree = LogIns().visit(tree)
                tree.body.insert(1 if (tree.body and isinstance(tree.body[0], ast.Expr) and isinstance(getattr(tree.body[0], "value", None), ast.Constant)) else 0,
                                 ast.Import([ast.alias("logging", None)]))
                # keep `from __future__` first
                fut = [s for s in tree.body if isinstance(s, ast.ImportFrom) and s.module == "__future__"]
                if fut:
                    doc = [s for s in tree.body[:1] if isinstance(s, ast.Expr) and isinstance(getattr(s, "value", None), ast.Constant)]
                    rest = [s for s in tree.body if s not in fut and s not in doc]
                    tree.body = doc + fut + rest
            elif MODE == "elifnest":
                tree = ElifNest().visit(tree)
            elif MODE == "kwargs":
                tree = KwArgs(defs).visit(tree)
            elif MODE == "assertins":
                tree = AssertIns().visit(tree)
            elif MODE == "hoistcond":
                tree = HoistCond().visit(tree)
            else:
                raise SystemExit("unknown mode " + MODE)
            src = ast.unparse(ast.fix_missing_locations(tree)) + "\n"
            compile(src, p, "exec")
            open(p, "w").write(src)
        if "--keep" in sys.argv:
            print(tmp)
        if "--test" in sys.argv:
            # the variant really is behaviour-preserving as far as the suite can tell: run the baseline tests on it
            for d in ("test", "setup.py", "setup.cfg", "pytest.ini", "conftest.py", "pyproject.toml"):
                s = os.path.join("/repo", d)
                if os.path.isdir(s):
                    shutil.copytree(s, os.path.join(tmp, d))
                elif os.path.exists(s):
                    shutil.copy(s, tmp)
            shutil.copytree("/repo/gaddlemaps/data", os.path.join(tmp, "gaddlemaps", "data"))
            r = subprocess.run(["/venv/bin/python", "-m", "pytest", "-q", "-p", "no:cacheprovider", "--timeout=900", "-n", "6"],
                               cwd=tmp, capture_output=True, text=True, env=dict(os.environ, PYTHONPATH=tmp))
            print("suite on the variant:", r.stdout.strip().splitlines()[-1] if r.stdout.strip() else r.stderr[-300:])
        bad = 0
        for i in range(1, 21):
            prop = "C%02d" % i
            r = subprocess.run(["./check", prop, "--tier", "quick", "--root", tmp, "--no-write"], cwd=VERIF, capture_output=True, text=True)
            if r.returncode or "NOT-DECIDED" in r.stdout:
                bad += 1
                print(prop, "exit", r.returncode)
                for ln in r.stdout.splitlines():
                    if "VIOLATION" not in ln and (": [" in ln or "ANALYSIS" in ln or "NOT-DECIDED" in ln):
                        print("   ", ln[:300])
        print("alarms on the %s tree:" % MODE, bad)
    finally:
        if "--keep" not in sys.argv:
            shutil.rmtree(tmp, ignore_errors=True)


if __name__ == "__main__":
    main()
