#!/venv/bin/python
"""Markdown table of the kept seeded changes (from seeded/*/meta.json), for DESIGN.md 10.7."""
import glob, json, os
root = os.path.dirname(os.path.dirname(os.path.abspath(__file__)))
rows = []
for d in sorted(glob.glob(os.path.join(root, "seeded", "*", ""))):
    m = json.load(open(os.path.join(d, "meta.json")))
    sid = os.path.basename(os.path.dirname(d))
    prop = m["breaks_property"]
    fired = m.get("checks_fired", {})
    tgt = ", ".join(fired.get(prop, {}).get("rules", [])) or "-"
    others = ", ".join("%s %s" % (p, "/".join(v["rules"])) for p, v in sorted(fired.items()) if p != prop) or ""
    summ = m["summary"].replace("|", "/").replace("\n", " ")
    if len(summ) > 150:
        summ = summ[:147] + "..."
    rows.append("| %s | %s | %s | %s | %s |" % (sid, summ, m.get("first_evaluation", "?"), tgt, others))
print("| seed | change (sub-agent's summary, shortened) | first evaluation | target-property rules now | other checks that fire |")
print("|------|------|------|------|------|")
print("\n".join(rows))
