#!/venv/bin/python
"""Behaviour-preserving whole-tree variant: every local variable of every function is renamed consistently
(<name> -> <name>_rn).  All checks must stay silent on it."""
import ast, os, shutil, sys, tempfile, subprocess
sys.path.insert(0, os.path.dirname(os.path.dirname(os.path.abspath(__file__))))


def rename_locals(tree):
    for fn in [n for n in ast.walk(tree) if isinstance(n, (ast.FunctionDef, ast.AsyncFunctionDef))]:
        params = {a.arg for a in fn.args.posonlyargs + fn.args.args + fn.args.kwonlyargs}
        if fn.args.vararg:
            params.add(fn.args.vararg.arg)
        if fn.args.kwarg:
            params.add(fn.args.kwarg.arg)
        declared = set()
        for n in ast.walk(fn):
            if isinstance(n, (ast.Global, ast.Nonlocal)):
                declared |= set(n.names)
        nested_params = set()
        for n in ast.walk(fn):
            if n is not fn and isinstance(n, (ast.FunctionDef, ast.Lambda)):
                a = n.args
                nested_params |= {x.arg for x in a.posonlyargs + a.args + a.kwonlyargs}
        stored = {n.id for n in ast.walk(fn) if isinstance(n, ast.Name) and isinstance(n.ctx, ast.Store)}
        imported = set()
        for n in ast.walk(fn):
            if isinstance(n, (ast.Import, ast.ImportFrom)):
                imported |= {(al.asname or al.name).split(".")[0] for al in n.names}
        locs = stored - params - declared - nested_params - imported
        locs = {x for x in locs if not x.endswith("_rn") and x != "_"}
        for n in ast.walk(fn):
            if isinstance(n, ast.Name) and n.id in locs:
                n.id = n.id + "_rn"
    return tree


def main():
    tmp = tempfile.mkdtemp(prefix="gmsa-rn-")
    try:
        shutil.copytree("/repo/gaddlemaps", os.path.join(tmp, "gaddlemaps"), ignore=shutil.ignore_patterns("__pycache__", "data"))
        for dp, dn, fn in os.walk(os.path.join(tmp, "gaddlemaps")):
            for f in fn:
                if f.endswith(".py"):
                    p = os.path.join(dp, f)
                    tree = rename_locals(ast.parse(open(p).read()))
                    open(p, "w").write(ast.unparse(tree) + "\n")
        if "--keep" in sys.argv:
            print(tmp)
        bad = 0
        for i in range(1, 21):
            prop = "C%02d" % i
            r = subprocess.run(["./check", prop, "--tier", "quick", "--root", tmp, "--no-write"], cwd=os.path.dirname(os.path.dirname(os.path.abspath(__file__))),
                               capture_output=True, text=True)
            if r.returncode:
                bad += 1
                print(prop, "exit", r.returncode)
                for ln in r.stdout.splitlines():
                    if "VIOLATION" not in ln:
                        print("   ", ln[:260])
        print("alarms on the renamed-locals tree:", bad)
    finally:
        if "--keep" not in sys.argv:
            shutil.rmtree(tmp, ignore_errors=True)


if __name__ == "__main__":
    main()
