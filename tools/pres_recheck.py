#!/venv/bin/python
"""Re-run the 20 quick checks (analysis only; tests were confirmed at admission) against every kept refactor and refresh
`checks_fired_now` / `silent_now` in preserving/<id>/meta.json.  Usage: tools/pres_recheck.py [id ...]"""
import json, os, shutil, subprocess, sys, tempfile
VERIF = os.path.dirname(os.path.dirname(os.path.abspath(__file__)))
ids = sys.argv[1:] or sorted(x for x in os.listdir(os.path.join(VERIF, "preserving")) if os.path.isdir(os.path.join(VERIF, "preserving", x)))
for sid in ids:
    d = os.path.join(VERIF, "preserving", sid)
    if not os.path.exists(os.path.join(d, "patch.diff")):
        continue
    tmp = tempfile.mkdtemp(prefix="gmsa-pres-")
    try:
        shutil.copytree("/repo/gaddlemaps", os.path.join(tmp, "gaddlemaps"), ignore=shutil.ignore_patterns("__pycache__", "data"))
        r = subprocess.run(["git", "apply", "--unsafe-paths", os.path.join(d, "patch.diff")], cwd=tmp, capture_output=True, text=True)
        meta = json.load(open(os.path.join(d, "meta.json")))
        if r.returncode != 0:
            print("%-8s PATCH DOES NOT APPLY" % sid)
            continue
        fired = {}
        for i in range(1, 21):
            p = "C%02d" % i
            c = subprocess.run(["./check", p, "--tier", "quick", "--root", tmp, "--no-write"], cwd=VERIF, capture_output=True, text=True)
            nd = [ln[:300] for ln in c.stdout.splitlines() if "NOT-DECIDED" in ln]
            if c.returncode != 0 or nd:
                rules = sorted({ln.split("[")[1].split("]")[0] for ln in c.stdout.splitlines() if ": [" in ln and "] " in ln})
                fired[p] = {"exit": c.returncode, "rules": rules, "not_decided": nd[:5],
                            "lines": [ln[:400] for ln in c.stdout.splitlines() if ": [" in ln or "ANALYSIS-ERROR" in ln][:8]}
        meta["checks_fired_now"] = fired
        meta["silent_now"] = not fired
        json.dump(meta, open(os.path.join(d, "meta.json"), "w"), indent=1)
        bad = {p: v["rules"] for p, v in fired.items() if v["exit"]}
        print("%-8s %s" % (sid, "SILENT" if not fired else ("ALARM %s" % bad if bad else "exit 0, notes: %s" % {p: len(v["not_decided"]) for p, v in fired.items()})))
    finally:
        shutil.rmtree(tmp, ignore_errors=True)
