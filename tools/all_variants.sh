#!/bin/bash
# every whole-tree behaviour-preserving variant: each must leave all 20 checks silent (prints one summary line per variant)
cd "$(dirname "$0")/.."
for cmd in "tools/reformat_variant.py" "tools/rename_variant.py" "tools/ifswap_variant.py --mode=swap" "tools/ifswap_variant.py --mode=noelse" \
           "tools/ifswap_variant.py --mode=cmpswap" "tools/extra_variants.py --mode=tempret" "tools/extra_variants.py --mode=logins" \
           "tools/extra_variants.py --mode=elifnest" "tools/extra_variants.py --mode=kwargs" "tools/extra_variants.py --mode=assertins" \
           "tools/extra_variants.py --mode=hoistcond"; do
  out=$($cmd 2>&1); rc=$?
  echo "$cmd -> exit $rc: $(echo "$out" | tail -1)"
  echo "$out" | grep -E "VIOLATION|NOT-DECIDED|ANALYSIS-ERROR" | head -5
done
