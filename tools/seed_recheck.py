#!/venv/bin/python
"""Re-run all 20 quick checks against every kept seeded change (analysis only; the demos/tests were confirmed when
the seed was admitted) and refresh `checks_fired` in its meta.json.  Usage: tools/seed_recheck.py [id ...]"""
import json, os, shutil, subprocess, sys, tempfile
VERIF = os.path.dirname(os.path.dirname(os.path.abspath(__file__)))
ids = sys.argv[1:] or sorted(os.listdir(os.path.join(VERIF, "seeded")))
summary = []
for sid in ids:
    d = os.path.join(VERIF, "seeded", sid)
    if not os.path.exists(os.path.join(d, "patch.diff")):
        continue
    tmp = tempfile.mkdtemp(prefix="gmsa-seed-")
    try:
        shutil.copytree("/repo/gaddlemaps", os.path.join(tmp, "gaddlemaps"), ignore=shutil.ignore_patterns("__pycache__", "data"))
        r = subprocess.run(["git", "apply", "--unsafe-paths", os.path.join(d, "patch.diff")], cwd=tmp, capture_output=True, text=True)
        meta = json.load(open(os.path.join(d, "meta.json")))
        if r.returncode != 0:
            meta["recheck_error"] = "patch no longer applies to the current tree: " + r.stderr[-200:]
            json.dump(meta, open(os.path.join(d, "meta.json"), "w"), indent=1)
            summary.append((sid, "PATCH DOES NOT APPLY", ""))
            continue
        fired = {}
        for i in range(1, 21):
            p = "C%02d" % i
            c = subprocess.run(["./check", p, "--tier", "quick", "--root", tmp, "--no-write"], cwd=VERIF, capture_output=True, text=True)
            if c.returncode != 0:
                rules = sorted({ln.split("[")[1].split("]")[0] for ln in c.stdout.splitlines() if ": [" in ln and "] " in ln})
                fired[p] = {"exit": c.returncode, "rules": rules,
                            "first": next((ln[:300] for ln in c.stdout.splitlines() if ": [" in ln), "")}
        prop = meta["breaks_property"]
        meta["checks_fired"] = fired
        meta["caught_by_target_property"] = prop in fired and fired[prop]["exit"] == 1
        meta["caught_by_any"] = any(v["exit"] == 1 for v in fired.values())
        meta.pop("recheck_error", None)
        json.dump(meta, open(os.path.join(d, "meta.json"), "w"), indent=1)
        summary.append((sid, "target" if meta["caught_by_target_property"] else ("other" if meta["caught_by_any"] else "MISSED"),
                        {k: v["rules"] for k, v in fired.items()}))
    finally:
        shutil.rmtree(tmp, ignore_errors=True)
for s in summary:
    print("%-8s %-8s %s" % s)
print("seeds: %d  caught by target: %d  by another property only: %d  missed: %d" % (
    len(summary), sum(1 for s in summary if s[1] == "target"), sum(1 for s in summary if s[1] == "other"),
    sum(1 for s in summary if s[1] == "MISSED")))
