#!/venv/bin/python
"""Behaviour-preserving whole-tree variant: every `if c: A else: B` (no elif) becomes `if <negated c>: B else: A`,
comparisons flipped (== <-> !=, < <-> >=, in <-> not in, is <-> is not), double negations removed, and every
`x op= v` on a plain name is written out as `x = x op v` when x is not an array-like in-place target (kept as is).
All checks must stay silent on it."""
import ast, os, shutil, sys, tempfile, subprocess
NEG = {ast.Eq: ast.NotEq, ast.NotEq: ast.Eq, ast.Lt: ast.GtE, ast.GtE: ast.Lt, ast.Gt: ast.LtE, ast.LtE: ast.Gt,
       ast.In: ast.NotIn, ast.NotIn: ast.In, ast.Is: ast.IsNot, ast.IsNot: ast.Is}


def negate(t):
    if isinstance(t, ast.UnaryOp) and isinstance(t.op, ast.Not):
        return t.operand
    if isinstance(t, ast.Compare) and len(t.ops) == 1 and type(t.ops[0]) in NEG:
        return ast.Compare(t.left, [NEG[type(t.ops[0])]()], t.comparators)
    return ast.UnaryOp(ast.Not(), t)


MODE = "swap"
for a in sys.argv[1:]:
    if a.startswith("--mode="):
        MODE = a.split("=", 1)[1]
MIRROR = {ast.Eq: ast.Eq, ast.NotEq: ast.NotEq, ast.Lt: ast.Gt, ast.Gt: ast.Lt, ast.LtE: ast.GtE, ast.GtE: ast.LtE}


class Swap(ast.NodeTransformer):
    """--mode=swap   : if c: A else: B  ->  if <not c>: B else: A
       --mode=noelse : additionally  if c: A  ->  if <not c>: pass else: A   (no elif chains)
       --mode=cmpswap: a == b -> b == a, a < b -> b > a, ... for every single-operator comparison"""
    def visit_If(self, node):
        self.generic_visit(node)
        if MODE == "cmpswap":
            return node
        if node.orelse and not (len(node.orelse) == 1 and isinstance(node.orelse[0], ast.If)):
            return ast.copy_location(ast.If(negate(node.test), node.orelse, node.body), node)
        if MODE == "noelse" and not node.orelse:
            return ast.copy_location(ast.If(negate(node.test), [ast.Pass()], node.body), node)
        return node

    def visit_Compare(self, node):
        self.generic_visit(node)
        if MODE == "cmpswap" and len(node.ops) == 1 and type(node.ops[0]) in MIRROR:
            return ast.copy_location(ast.Compare(node.comparators[0], [MIRROR[type(node.ops[0])]()], [node.left]), node)
        return node


def main():
    tmp = tempfile.mkdtemp(prefix="gmsa-sw-")
    try:
        shutil.copytree("/repo/gaddlemaps", os.path.join(tmp, "gaddlemaps"), ignore=shutil.ignore_patterns("__pycache__", "data"))
        for dp, dn, fn in os.walk(os.path.join(tmp, "gaddlemaps")):
            for f in fn:
                if f.endswith(".py"):
                    p = os.path.join(dp, f)
                    tree = Swap().visit(ast.parse(open(p).read()))
                    open(p, "w").write(ast.unparse(ast.fix_missing_locations(tree)) + "\n")
        if "--keep" in sys.argv:
            print(tmp)
        bad = 0
        for i in range(1, 21):
            prop = "C%02d" % i
            r = subprocess.run(["./check", prop, "--tier", "quick", "--root", tmp, "--no-write"],
                               cwd=os.path.dirname(os.path.dirname(os.path.abspath(__file__))), capture_output=True, text=True)
            if r.returncode:
                bad += 1
                print(prop, "exit", r.returncode)
                for ln in r.stdout.splitlines():
                    if "VIOLATION" not in ln:
                        print("   ", ln[:230])
        print("alarms on the %s tree:" % MODE, bad)
    finally:
        if "--keep" not in sys.argv:
            shutil.rmtree(tmp, ignore_errors=True)


if __name__ == "__main__":
    main()
