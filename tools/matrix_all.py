import sys
sys.path.insert(0,'/verif')
from concurrent.futures import ProcessPoolExecutor
from gmsa.variants import V
from gmsa import thorough
props=sorted({v["property"] for v in V})
jobs=[]
for p in props:
    n=len([x for x in V if x["property"]==p])
    jobs+=[(p,i,"/repo") for i in range(n)]
with ProcessPoolExecutor(8) as ex:
    res=list(ex.map(thorough._one, jobs))
bad=[r for r in res if r["outcome"] in ("SURVIVED","FALSE ALARM","analysis-error","analyser error")]
print(len(res), "variants;", len(bad), "defects")
for r in bad: print(r["kind"], r["desc"], r["outcome"], r.get("why",""))
