#!/venv/bin/python
"""ad-hoc: ./mt.py PROP file 'old' 'new'  -> analyse a one-edit variant"""
import sys
sys.path.insert(0, '/verif')
from gmsa.mutate import analyse_variant
prop, rel, old, new = sys.argv[1:5]
code, failed, out = analyse_variant(prop, [(rel, old, new)])
print("exit", code)
for f in failed:
    print("  ", f["rule"], "|", f["function"].split(".")[-1], "|", f["construct"][:90], "|", f["what"][-140:])
